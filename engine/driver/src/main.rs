// pgcat-facts: rustc_private driver that dumps `mir_built` facts for the crate
// being compiled (only when the crate name is in PGCAT_FACTS_CRATES) as one
// JSON file per crate instance under $PGCAT_FACTS_OUT.
//
// Used as RUSTC_WORKSPACE_WRAPPER: argv[1] is the real rustc path and is dropped.
#![feature(rustc_private)]
#![allow(rustc::internal)]

extern crate rustc_abi;
extern crate rustc_data_structures;
extern crate rustc_driver;
extern crate rustc_hir;
extern crate rustc_interface;
extern crate rustc_middle;
extern crate rustc_session;
extern crate rustc_span;

use rustc_driver::Compilation;
use rustc_hir::def::DefKind;
use rustc_hir::def_id::{DefId, LOCAL_CRATE};
use rustc_middle::mir::{
    self, AggregateKind, BasicBlock, Body, Const, ConstValue, Operand, Place, PlaceElem, Rvalue,
    StatementKind, TerminatorKind, UnwindAction,
};
use rustc_middle::mir::interpret::{GlobalAlloc, Scalar};
use rustc_middle::ty::print::{with_crate_prefix, with_no_trimmed_paths, with_no_visible_paths};
use rustc_middle::ty::{self, Instance, Ty, TyCtxt, TypingEnv};
use rustc_span::Span;
use std::collections::BTreeMap;
use std::fmt::Write as _;

// ------------------------------------------------------------------ JSON
fn esc(s: &str, out: &mut String) {
    out.push('"');
    for c in s.chars() {
        match c {
            '"' => out.push_str("\\\""),
            '\\' => out.push_str("\\\\"),
            '\n' => out.push_str("\\n"),
            '\r' => out.push_str("\\r"),
            '\t' => out.push_str("\\t"),
            c if (c as u32) < 0x20 => {
                let _ = write!(out, "\\u{:04x}", c as u32);
            }
            c => out.push(c),
        }
    }
    out.push('"');
}
fn js(s: &str) -> String {
    let mut o = String::new();
    esc(s, &mut o);
    o
}
fn jbytes(b: &[u8]) -> String {
    // bytes as a JSON string when valid UTF-8, otherwise as an array of ints
    match std::str::from_utf8(b) {
        Ok(s) => js(s),
        Err(_) => {
            let mut o = String::from("[");
            for (i, x) in b.iter().enumerate() {
                if i > 0 {
                    o.push(',');
                }
                let _ = write!(o, "{}", x);
            }
            o.push(']');
            o
        }
    }
}
fn jbytes_arr(b: &[u8]) -> String {
    let mut o = String::from("[");
    for (i, x) in b.iter().enumerate() {
        if i > 0 {
            o.push(',');
        }
        let _ = write!(o, "{}", x);
    }
    o.push(']');
    o
}

thread_local! {
    static CRATE_NAME: std::cell::RefCell<String> = std::cell::RefCell::new(String::new());
}
/// `crate::a::B` -> `<cratename>::a::B`
fn fixc(s: &str) -> String {
    let name = CRATE_NAME.with(|c| c.borrow().clone());
    let mut out = String::with_capacity(s.len() + 8);
    let b = s.as_bytes();
    let mut i = 0;
    while i < b.len() {
        if s[i..].starts_with("crate::") && (i == 0 || !(b[i - 1].is_ascii_alphanumeric() || b[i - 1] == b'_')) {
            out.push_str(&name);
            out.push_str("::");
            i += 7;
        } else {
            let ch = s[i..].chars().next().unwrap();
            out.push(ch);
            i += ch.len_utf8();
        }
    }
    out
}

// ------------------------------------------------------------------ dumper
struct Dumper<'tcx> {
    tcx: TyCtxt<'tcx>,
    seen_adts: BTreeMap<String, DefId>,
}

impl<'tcx> Dumper<'tcx> {
    fn span(&self, sp: Span) -> String {
        let sp = if sp.from_expansion() { sp.source_callsite() } else { sp };
        let sm = self.tcx.sess.source_map();
        let loc = sm.lookup_char_pos(sp.lo());
        let name = format!("{}", loc.file.name.prefer_local_unconditionally());
        format!("{}:{}:{}", name, loc.line, loc.col.0 + 1)
    }
    fn ty_str(&self, t: Ty<'tcx>) -> String {
        fixc(&with_crate_prefix!(with_no_visible_paths!(with_no_trimmed_paths!(format!("{}", t)))))
    }
    fn def_str(&self, d: DefId) -> String {
        fixc(&with_crate_prefix!(with_no_visible_paths!(with_no_trimmed_paths!(self.tcx.def_path_str(d)))))
    }
    fn note_adt(&mut self, t: Ty<'tcx>) {
        let t = t.peel_refs();
        if let ty::Adt(def, _) = t.kind() {
            let n = self.def_str(def.did());
            self.seen_adts.entry(n).or_insert(def.did());
        }
    }

    fn place(&mut self, body: &Body<'tcx>, p: &Place<'tcx>) -> String {
        let tcx = self.tcx;
        let mut o = String::new();
        let _ = write!(o, "{{\"l\":{},\"p\":[", p.local.as_usize());
        let mut pty = mir::PlaceTy::from_ty(body.local_decls[p.local].ty);
        for (i, elem) in p.projection.iter().enumerate() {
            if i > 0 {
                o.push(',');
            }
            match elem {
                PlaceElem::Deref => o.push_str("\"*\""),
                PlaceElem::Field(f, _) => {
                    let name = match pty.ty.kind() {
                        ty::Adt(def, _) => {
                            self.note_adt(pty.ty);
                            let v = pty.variant_index.unwrap_or(rustc_abi::FIRST_VARIANT);
                            if def.is_enum() || def.is_struct() || def.is_union() {
                                let vd = def.variant(v);
                                vd.fields
                                    .get(f)
                                    .map(|fd| fd.name.to_string())
                                    .unwrap_or_else(|| f.as_usize().to_string())
                            } else {
                                f.as_usize().to_string()
                            }
                        }
                        _ => f.as_usize().to_string(),
                    };
                    esc(&format!(".{}", name), &mut o);
                }
                PlaceElem::Index(l) => esc(&format!("[_{}]", l.as_usize()), &mut o),
                PlaceElem::ConstantIndex { offset, from_end, .. } => {
                    esc(&format!("[c{}{}]", if from_end { "-" } else { "" }, offset), &mut o)
                }
                PlaceElem::Subslice { from, to, from_end } => {
                    esc(&format!("[s{}..{}{}]", from, if from_end { "-" } else { "" }, to), &mut o)
                }
                PlaceElem::Downcast(sym, vi) => {
                    self.note_adt(pty.ty);
                    let n = match sym {
                        Some(s) => s.to_string(),
                        None => match pty.ty.kind() {
                            ty::Adt(def, _) if def.is_enum() => def.variant(vi).name.to_string(),
                            _ => vi.as_usize().to_string(),
                        },
                    };
                    esc(&format!("@{}", n), &mut o);
                }
                PlaceElem::OpaqueCast(_) => o.push_str("\"opaque\""),
                PlaceElem::UnwrapUnsafeBinder(_) => o.push_str("\"unbind\""),
            }
            pty = pty.projection_ty(tcx, elem);
        }
        o.push_str("]}");
        o
    }

    fn place_ty(&self, body: &Body<'tcx>, p: &Place<'tcx>) -> Ty<'tcx> {
        p.ty(&body.local_decls, self.tcx).ty
    }

    fn konst(&mut self, c: &mir::ConstOperand<'tcx>) -> String {
        let tcx = self.tcx;
        let cty = c.const_.ty();
        let mut o = String::from("{\"const\":{");
        let _ = write!(o, "\"ty\":{}", js(&self.ty_str(cty)));
        let disp = fixc(&with_crate_prefix!(with_no_visible_paths!(with_no_trimmed_paths!(format!("{}", c.const_)))));
        let _ = write!(o, ",\"s\":{}", js(&disp));
        if let ty::FnDef(d, args) = cty.kind() {
            let _ = write!(o, ",\"fn\":{}", js(&self.def_str(*d)));
            let _ = write!(
                o,
                ",\"fnargs\":{}",
                js(&fixc(&with_crate_prefix!(with_no_visible_paths!(with_no_trimmed_paths!(tcx.def_path_str_with_args(*d, args))))))
            );
        }
        match c.const_ {
            Const::Val(v, _) => match v {
                ConstValue::Scalar(Scalar::Int(i)) => {
                    let bits = i.to_bits(i.size());
                    let _ = write!(o, ",\"int\":{}", bits);
                    if cty.is_signed() {
                        let sz = i.size().bits();
                        let sv = if sz == 128 {
                            bits as i128
                        } else {
                            let shift = 128 - sz;
                            ((bits << shift) as i128) >> shift
                        };
                        let _ = write!(o, ",\"sint\":{}", sv);
                    }
                }
                ConstValue::Scalar(Scalar::Ptr(ptr, _)) => {
                    let aid = ptr.provenance.alloc_id();
                    match tcx.try_get_global_alloc(aid) {
                        Some(GlobalAlloc::Static(d)) => {
                            let _ = write!(o, ",\"static\":{}", js(&self.def_str(d)));
                        }
                        Some(GlobalAlloc::Memory(a)) => {
                            let a = a.inner();
                            if a.provenance().ptrs().is_empty() {
                                let len = a.len();
                                let b = a.inspect_with_uninit_and_ptr_outside_interpreter(0..len);
                                if len <= 4096 {
                                    let _ = write!(o, ",\"bytes\":{}", jbytes_arr(b));
                                }
                            }
                        }
                        _ => {}
                    }
                }
                ConstValue::Slice { .. } => {
                    if let Some(b) = v.try_get_slice_bytes_for_diagnostics(tcx) {
                        let _ = write!(o, ",\"str\":{}", jbytes(b));
                    }
                }
                _ => {}
            },
            Const::Unevaluated(uv, _) => {
                let _ = write!(o, ",\"uneval\":{}", js(&self.def_str(uv.def)));
                if let Some(p) = uv.promoted {
                    let _ = write!(o, ",\"promoted\":{}", p.as_usize());
                }
            }
            Const::Ty(_, ct) => {
                if let Some(s) = ct.try_to_scalar() {
                    if let Ok(i) = s.try_to_scalar_int() {
                        let _ = write!(o, ",\"int\":{}", i.to_bits(i.size()));
                    }
                } else if let Some(v) = ct.try_to_value() {
                    if let Some(b) = v.try_to_raw_bytes(tcx) {
                        let _ = write!(o, ",\"str\":{}", jbytes(b));
                    }
                }
            }
        }
        o.push_str("}}");
        o
    }

    fn operand(&mut self, body: &Body<'tcx>, op: &Operand<'tcx>) -> String {
        match op {
            Operand::Copy(p) => format!("{{\"c\":\"copy\",\"pl\":{}}}", self.place(body, p)),
            Operand::Move(p) => format!("{{\"c\":\"move\",\"pl\":{}}}", self.place(body, p)),
            Operand::Constant(c) => self.konst(c),
            Operand::RuntimeChecks(_) => "{\"rtcheck\":true}".to_string(),
        }
    }

    fn rvalue(&mut self, body: &Body<'tcx>, rv: &Rvalue<'tcx>) -> String {
        let tcx = self.tcx;
        match rv {
            Rvalue::Use(op, _) => format!("{{\"k\":\"use\",\"op\":{}}}", self.operand(body, op)),
            Rvalue::Repeat(op, _) => format!("{{\"k\":\"repeat\",\"op\":{}}}", self.operand(body, op)),
            Rvalue::Ref(_, bk, p) => {
                let m = matches!(bk, mir::BorrowKind::Mut { .. });
                let fake = matches!(bk, mir::BorrowKind::Fake(_));
                format!(
                    "{{\"k\":\"ref\",\"mut\":{},\"fake\":{},\"pl\":{}}}",
                    m,
                    fake,
                    self.place(body, p)
                )
            }
            Rvalue::ThreadLocalRef(d) => format!("{{\"k\":\"tls\",\"def\":{}}}", js(&self.def_str(*d))),
            Rvalue::RawPtr(_, p) => format!("{{\"k\":\"rawptr\",\"pl\":{}}}", self.place(body, p)),
            Rvalue::Cast(kind, op, t) => format!(
                "{{\"k\":\"cast\",\"kind\":{},\"op\":{},\"ty\":{}}}",
                js(&format!("{:?}", kind)),
                self.operand(body, op),
                js(&self.ty_str(*t))
            ),
            Rvalue::BinaryOp(bop, ab) => format!(
                "{{\"k\":\"bin\",\"op\":{},\"a\":{},\"b\":{}}}",
                js(&format!("{:?}", bop)),
                self.operand(body, &ab.0),
                self.operand(body, &ab.1)
            ),
            Rvalue::UnaryOp(uop, a) => format!(
                "{{\"k\":\"un\",\"op\":{},\"a\":{}}}",
                js(&format!("{:?}", uop)),
                self.operand(body, a)
            ),
            Rvalue::Discriminant(p) => {
                let t = self.place_ty(body, p);
                self.note_adt(t);
                format!(
                    "{{\"k\":\"discr\",\"pl\":{},\"ty\":{}}}",
                    self.place(body, p),
                    js(&self.ty_str(t))
                )
            }
            Rvalue::Aggregate(kind, ops) => {
                let mut o = String::from("{\"k\":\"agg\"");
                match &**kind {
                    AggregateKind::Array(t) => {
                        let _ = write!(o, ",\"agg\":\"array\",\"ty\":{}", js(&self.ty_str(*t)));
                    }
                    AggregateKind::Tuple => o.push_str(",\"agg\":\"tuple\""),
                    AggregateKind::Adt(d, vi, args, _, _) => {
                        let def = tcx.adt_def(*d);
                        let name = self.def_str(*d);
                        self.seen_adts.entry(name.clone()).or_insert(*d);
                        let v = def.variant(*vi);
                        let _ = write!(
                            o,
                            ",\"agg\":\"adt\",\"adt\":{},\"variant\":{},\"fields\":[",
                            js(&name),
                            js(&v.name.to_string())
                        );
                        for (i, f) in v.fields.iter().enumerate() {
                            if i > 0 {
                                o.push(',');
                            }
                            esc(&f.name.to_string(), &mut o);
                        }
                        let _ = write!(
                            o,
                            "],\"tyargs\":{}",
                            js(&fixc(&with_crate_prefix!(with_no_visible_paths!(with_no_trimmed_paths!(format!("{:?}", args))))))
                        );
                    }
                    AggregateKind::Closure(d, _) => {
                        let _ = write!(o, ",\"agg\":\"closure\",\"def\":{}", js(&self.def_str(*d)));
                    }
                    AggregateKind::Coroutine(d, _) => {
                        let _ = write!(o, ",\"agg\":\"coroutine\",\"def\":{}", js(&self.def_str(*d)));
                    }
                    AggregateKind::CoroutineClosure(d, _) => {
                        let _ = write!(o, ",\"agg\":\"coroutine_closure\",\"def\":{}", js(&self.def_str(*d)));
                    }
                    AggregateKind::RawPtr(..) => o.push_str(",\"agg\":\"rawptr\""),
                }
                o.push_str(",\"ops\":[");
                for (i, op) in ops.iter().enumerate() {
                    if i > 0 {
                        o.push(',');
                    }
                    o.push_str(&self.operand(body, op));
                }
                o.push_str("]}");
                o
            }
            Rvalue::CopyForDeref(p) => format!(
                "{{\"k\":\"use\",\"op\":{{\"c\":\"copy\",\"pl\":{}}}}}",
                self.place(body, p)
            ),
            Rvalue::WrapUnsafeBinder(op, _) => format!("{{\"k\":\"use\",\"op\":{}}}", self.operand(body, op)),
        }
    }

    fn unwind(&self, u: &UnwindAction) -> String {
        match u {
            UnwindAction::Cleanup(b) => b.as_usize().to_string(),
            _ => "null".to_string(),
        }
    }
    fn optbb(&self, b: &Option<BasicBlock>) -> String {
        match b {
            Some(b) => b.as_usize().to_string(),
            None => "null".to_string(),
        }
    }

    fn callee(&mut self, body: &Body<'tcx>, env: TypingEnv<'tcx>, func: &Operand<'tcx>) -> String {
        let tcx = self.tcx;
        let mut o = String::from("{");
        let fty = func.ty(&body.local_decls, tcx);
        match fty.kind() {
            ty::FnDef(d, args) => {
                let _ = write!(o, "\"def\":{}", js(&self.def_str(*d)));
                let _ = write!(
                    o,
                    ",\"full\":{}",
                    js(&fixc(&with_crate_prefix!(with_no_visible_paths!(with_no_trimmed_paths!(tcx.def_path_str_with_args(*d, args))))))
                );
                o.push_str(",\"targs\":[");
                let mut first = true;
                for a in args.iter() {
                    if let Some(t) = a.as_type() {
                        if !first {
                            o.push(',');
                        }
                        first = false;
                        esc(&self.ty_str(t), &mut o);
                    }
                }
                o.push(']');
                // trait method? record trait
                if let Some(tr) = tcx.trait_of_assoc(*d) {
                    let _ = write!(o, ",\"trait\":{}", js(&self.def_str(tr)));
                }
                // resolve
                let mut resolved: Option<DefId> = None;
                if matches!(tcx.def_kind(*d), DefKind::Fn | DefKind::AssocFn) {
                    if let Ok(nargs) = tcx.try_normalize_erasing_regions(env, ty::Unnormalized::new_wip(*args)) {
                        if let Ok(Some(inst)) = Instance::try_resolve(tcx, env, *d, nargs) {
                            resolved = Some(inst.def_id());
                            let _ = write!(o, ",\"res\":{}", js(&self.def_str(inst.def_id())));
                            let _ = write!(
                                o,
                                ",\"resfull\":{}",
                                js(&fixc(&with_crate_prefix!(with_no_visible_paths!(with_no_trimmed_paths!(
                                    tcx.def_path_str_with_args(inst.def_id(), inst.args)
                                )))))
                            );
                            let kind = match inst.def {
                                ty::InstanceKind::Item(_) => "item",
                                ty::InstanceKind::Virtual(..) => "virtual",
                                ty::InstanceKind::Intrinsic(_) => "intrinsic",
                                ty::InstanceKind::ClosureOnceShim { .. } => "closure_once",
                                ty::InstanceKind::FnPtrShim(..) => "fnptr_shim",
                                ty::InstanceKind::DropGlue(..) => "drop_glue",
                                ty::InstanceKind::CloneShim(..) => "clone_shim",
                                _ => "other",
                            };
                            let _ = write!(o, ",\"reskind\":\"{}\"", kind);
                        }
                    }
                }
                let _ = resolved;
            }
            ty::FnPtr(..) => {
                let _ = write!(o, "\"fnptr\":{}", self.operand(body, func));
            }
            _ => {
                let _ = write!(o, "\"dyn\":{}", js(&self.ty_str(fty)));
            }
        }
        o.push('}');
        o
    }

    fn body(&mut self, did: DefId, body: &Body<'tcx>) -> String {
        let tcx = self.tcx;
        let env = TypingEnv::post_analysis(tcx, did);
        let mut o = String::new();
        let kind = match tcx.def_kind(did) {
            DefKind::Closure => {
                if tcx.is_coroutine(did) {
                    "coroutine"
                } else {
                    "closure"
                }
            }
            DefKind::Fn => "fn",
            DefKind::AssocFn => "assoc_fn",
            DefKind::Const { .. } => "const",
            DefKind::AssocConst { .. } => "assoc_const",
            DefKind::Static { .. } => "static",
            DefKind::AnonConst | DefKind::InlineConst => "anon_const",
            _ => "other",
        };
        let _ = write!(
            o,
            "{{\"def\":{},\"kind\":\"{}\",\"span\":{},\"argc\":{}",
            js(&self.def_str(did)),
            kind,
            js(&self.span(body.span)),
            body.arg_count
        );
        if matches!(tcx.def_kind(did), DefKind::Fn | DefKind::AssocFn) {
            let _ = write!(o, ",\"vis\":{}", js(&format!("{:?}", tcx.visibility(did))));
        }
        // locals
        o.push_str(",\"locals\":[");
        for (i, ld) in body.local_decls.iter().enumerate() {
            if i > 0 {
                o.push(',');
            }
            let _ = write!(
                o,
                "{{\"ty\":{},\"user\":{}}}",
                js(&self.ty_str(ld.ty)),
                ld.is_user_variable()
            );
        }
        o.push_str("],\"vars\":[");
        let mut first = true;
        for v in body.var_debug_info.iter() {
            if let mir::VarDebugInfoContents::Place(p) = &v.value {
                if !first {
                    o.push(',');
                }
                first = false;
                let _ = write!(
                    o,
                    "{{\"name\":{},\"pl\":{},\"arg\":{}}}",
                    js(&v.name.to_string()),
                    self.place(body, p),
                    v.argument_index.map(|x| x.to_string()).unwrap_or("null".into())
                );
            }
        }
        o.push_str("],\"blocks\":[");
        for (bi, bb) in body.basic_blocks.iter().enumerate() {
            if bi > 0 {
                o.push(',');
            }
            let _ = write!(o, "{{\"cleanup\":{},\"stmts\":[", bb.is_cleanup);
            let mut first = true;
            for st in bb.statements.iter() {
                let s = match &st.kind {
                    StatementKind::Assign(b) => {
                        let (pl, rv) = &**b;
                        Some(format!(
                            "{{\"k\":\"assign\",\"lhs\":{},\"rv\":{},\"span\":{},\"exp\":{}}}",
                            self.place(body, pl),
                            self.rvalue(body, rv),
                            js(&self.span(st.source_info.span)),
                            st.source_info.span.from_expansion()
                        ))
                    }
                    StatementKind::SetDiscriminant { place, variant_index } => Some(format!(
                        "{{\"k\":\"setdiscr\",\"lhs\":{},\"variant\":{}}}",
                        self.place(body, place),
                        variant_index.as_usize()
                    )),
                    StatementKind::StorageDead(l) => Some(format!("{{\"k\":\"dead\",\"l\":{}}}", l.as_usize())),
                    _ => None,
                };
                if let Some(s) = s {
                    if !first {
                        o.push(',');
                    }
                    first = false;
                    o.push_str(&s);
                }
            }
            o.push_str("],\"term\":");
            let term = bb.terminator();
            let tspan = js(&self.span(term.source_info.span));
            let texp = term.source_info.span.from_expansion();
            let t = match &term.kind {
                TerminatorKind::Goto { target } => format!("{{\"k\":\"goto\",\"target\":{}}}", target.as_usize()),
                TerminatorKind::SwitchInt { discr, targets } => {
                    let mut s = format!(
                        "{{\"k\":\"switch\",\"op\":{},\"ty\":{},\"targets\":[",
                        self.operand(body, discr),
                        js(&self.ty_str(discr.ty(&body.local_decls, tcx)))
                    );
                    for (i, (v, t)) in targets.iter().enumerate() {
                        if i > 0 {
                            s.push(',');
                        }
                        let _ = write!(s, "[{},{}]", v, t.as_usize());
                    }
                    let _ = write!(s, "],\"otherwise\":{},\"span\":{}}}", targets.otherwise().as_usize(), tspan);
                    s
                }
                TerminatorKind::UnwindResume => "{\"k\":\"resume\"}".to_string(),
                TerminatorKind::UnwindTerminate(_) => "{\"k\":\"terminate\"}".to_string(),
                TerminatorKind::Return => format!("{{\"k\":\"return\",\"span\":{}}}", tspan),
                TerminatorKind::Unreachable => "{\"k\":\"unreachable\"}".to_string(),
                TerminatorKind::Drop { place, target, unwind, drop, .. } => {
                    let t = self.place_ty(body, place);
                    format!(
                        "{{\"k\":\"drop\",\"pl\":{},\"ty\":{},\"target\":{},\"unwind\":{},\"cdrop\":{},\"span\":{}}}",
                        self.place(body, place),
                        js(&self.ty_str(t)),
                        target.as_usize(),
                        self.unwind(unwind),
                        self.optbb(drop),
                        tspan
                    )
                }
                TerminatorKind::Call { func, args, destination, target, unwind, fn_span, .. } => {
                    let mut s = format!("{{\"k\":\"call\",\"fn\":{},\"args\":[", self.callee(body, env, func));
                    for (i, a) in args.iter().enumerate() {
                        if i > 0 {
                            s.push(',');
                        }
                        s.push_str(&self.operand(body, &a.node));
                    }
                    let _ = write!(
                        s,
                        "],\"dest\":{},\"target\":{},\"unwind\":{},\"span\":{},\"exp\":{}}}",
                        self.place(body, destination),
                        self.optbb(target),
                        self.unwind(unwind),
                        js(&self.span(*fn_span)),
                        texp
                    );
                    s
                }
                TerminatorKind::TailCall { func, .. } => {
                    format!("{{\"k\":\"tailcall\",\"fn\":{}}}", self.callee(body, env, func))
                }
                TerminatorKind::Assert { cond, expected, msg, target, unwind } => {
                    let kind = match &**msg {
                        mir::AssertKind::BoundsCheck { .. } => "BoundsCheck".to_string(),
                        mir::AssertKind::Overflow(op, ..) => format!("Overflow({:?})", op),
                        mir::AssertKind::OverflowNeg(_) => "OverflowNeg".to_string(),
                        mir::AssertKind::DivisionByZero(_) => "DivisionByZero".to_string(),
                        mir::AssertKind::RemainderByZero(_) => "RemainderByZero".to_string(),
                        _ => "Other".to_string(),
                    };
                    format!(
                        "{{\"k\":\"assert\",\"cond\":{},\"expected\":{},\"msg\":{},\"target\":{},\"unwind\":{},\"span\":{},\"exp\":{}}}",
                        self.operand(body, cond),
                        expected,
                        js(&kind),
                        target.as_usize(),
                        self.unwind(unwind),
                        tspan,
                        texp
                    )
                }
                TerminatorKind::Yield { value, resume, drop, .. } => format!(
                    "{{\"k\":\"yield\",\"value\":{},\"target\":{},\"cdrop\":{},\"span\":{}}}",
                    self.operand(body, value),
                    resume.as_usize(),
                    self.optbb(drop),
                    tspan
                ),
                TerminatorKind::CoroutineDrop => "{\"k\":\"coroutine_drop\"}".to_string(),
                TerminatorKind::FalseEdge { real_target, imaginary_target } => format!(
                    "{{\"k\":\"falseedge\",\"target\":{},\"imaginary\":{}}}",
                    real_target.as_usize(),
                    imaginary_target.as_usize()
                ),
                TerminatorKind::FalseUnwind { real_target, unwind } => format!(
                    "{{\"k\":\"falseunwind\",\"target\":{},\"unwind\":{}}}",
                    real_target.as_usize(),
                    self.unwind(unwind)
                ),
                TerminatorKind::InlineAsm { .. } => "{\"k\":\"asm\"}".to_string(),
            };
            o.push_str(&t);
            o.push('}');
        }
        o.push_str("]}");
        o
    }

    fn adt(&self, d: DefId) -> String {
        let tcx = self.tcx;
        let def = tcx.adt_def(d);
        let mut o = String::new();
        let kind = if def.is_enum() {
            "enum"
        } else if def.is_union() {
            "union"
        } else {
            "struct"
        };
        let _ = write!(o, "{{\"name\":{},\"kind\":\"{}\",\"local\":{},\"variants\":[", js(&self.def_str(d)), kind, d.is_local());
        let discrs: Vec<u128> = if def.is_enum() {
            def.discriminants(tcx).map(|(_, d)| d.val).collect()
        } else {
            vec![0]
        };
        for (i, v) in def.variants().iter().enumerate() {
            if i > 0 {
                o.push(',');
            }
            let _ = write!(
                o,
                "{{\"name\":{},\"discr\":{},\"fields\":[",
                js(&v.name.to_string()),
                discrs.get(i).copied().unwrap_or(i as u128)
            );
            for (j, f) in v.fields.iter().enumerate() {
                if j > 0 {
                    o.push(',');
                }
                let fty = tcx.type_of(f.did).instantiate_identity().skip_norm_wip();
                let _ = write!(
                    o,
                    "{{\"name\":{},\"ty\":{}}}",
                    js(&f.name.to_string()),
                    js(&self.ty_str(fty))
                );
            }
            o.push_str("]}");
        }
        o.push_str("]}");
        o
    }
}

struct Cb {
    out_dir: String,
    run_id: String,
}

impl rustc_driver::Callbacks for Cb {
    fn after_expansion<'tcx>(&mut self, _c: &rustc_interface::interface::Compiler, tcx: TyCtxt<'tcx>) -> Compilation {
        let crate_name = tcx.crate_name(LOCAL_CRATE).to_string();
        CRATE_NAME.with(|c| *c.borrow_mut() = crate_name.clone());
        let ctype = format!("{:?}", tcx.crate_types());
        let is_test = tcx.sess.opts.test;
        let mut d = Dumper { tcx, seen_adts: BTreeMap::new() };
        let mut out = String::with_capacity(64 << 20);
        let _ = write!(
            out,
            "{{\"crate\":{},\"crate_types\":{},\"test\":{},\"run_id\":{},\"panic_strategy\":{},\"bodies\":[\n",
            js(&crate_name),
            js(&ctype),
            is_test,
            js(&self.run_id),
            js(&format!("{:?}", tcx.sess.panic_strategy()))
        );
        let mut n = 0usize;
        let owners: Vec<_> = tcx.hir_body_owners().collect();
        // Clone every body first: later queries (instance resolution, opaque
        // type inference) may run borrowck, which steals mir_built.
        let mut bodies: Vec<(DefId, Body<'tcx>)> = Vec::with_capacity(owners.len());
        // consts/statics first: building a fn body may const-evaluate them,
        // which steals their mir_built.
        let mut ordered: Vec<_> = owners.clone();
        ordered.sort_by_key(|l| match tcx.def_kind(l.to_def_id()) {
            DefKind::Const { .. } | DefKind::AssocConst { .. } | DefKind::Static { .. } | DefKind::AnonConst | DefKind::InlineConst => 0,
            _ => 1,
        });
        let mut stolen: Vec<String> = Vec::new();
        for ldid in ordered {
            let steal = tcx.mir_built(ldid);
            if steal.is_stolen() {
                stolen.push(d.def_str(ldid.to_def_id()));
                continue;
            }
            let body: Body<'tcx> = steal.borrow().clone();
            bodies.push((ldid.to_def_id(), body));
        }
        for (did, body) in bodies.iter() {
            if n > 0 {
                out.push_str(",\n");
            }
            out.push_str(&d.body(*did, body));
            n += 1;
        }
        out.push_str("\n],\"adts\":[\n");
        // all local ADTs
        for id in tcx.hir_crate_items(()).definitions() {
            let did = id.to_def_id();
            if matches!(tcx.def_kind(did), DefKind::Struct | DefKind::Enum | DefKind::Union) {
                let n = d.def_str(did);
                d.seen_adts.entry(n).or_insert(did);
            }
        }
        let adts: Vec<DefId> = d.seen_adts.values().copied().collect();
        for (i, a) in adts.iter().enumerate() {
            if i > 0 {
                out.push_str(",\n");
            }
            out.push_str(&d.adt(*a));
        }
        out.push_str("\n],\"impls\":[\n");
        let mut first = true;
        for (tr, impls) in tcx.all_local_trait_impls(()).iter() {
            for im in impls.iter() {
                let self_ty = tcx.type_of(im.to_def_id()).instantiate_identity().skip_norm_wip();
                if !first {
                    out.push_str(",\n");
                }
                first = false;
                let _ = write!(
                    out,
                    "{{\"trait\":{},\"self\":{},\"span\":{}}}",
                    js(&d.def_str(*tr)),
                    js(&d.ty_str(self_ty)),
                    js(&d.span(tcx.def_span(im.to_def_id())))
                );
            }
        }
        out.push_str("\n],\"statics\":[\n");
        let mut first = true;
        for id in tcx.hir_crate_items(()).definitions() {
            let did = id.to_def_id();
            if matches!(tcx.def_kind(did), DefKind::Static { .. }) {
                if !first {
                    out.push_str(",\n");
                }
                first = false;
                let t = tcx.type_of(did).instantiate_identity().skip_norm_wip();
                let _ = write!(out, "{{\"name\":{},\"ty\":{}}}", js(&d.def_str(did)), js(&d.ty_str(t)));
            }
        }
        out.push_str("\n],\"fns\":[\n");
        // signatures of local fns (for is-async / visibility questions)
        let mut first = true;
        for id in tcx.hir_crate_items(()).definitions() {
            let did = id.to_def_id();
            if matches!(tcx.def_kind(did), DefKind::Fn | DefKind::AssocFn) {
                if !first {
                    out.push_str(",\n");
                }
                first = false;
                let is_async = tcx.asyncness(did).is_async();
                let _ = write!(
                    out,
                    "{{\"def\":{},\"async\":{},\"span\":{}}}",
                    js(&d.def_str(did)),
                    is_async,
                    js(&d.span(tcx.def_span(did)))
                );
            }
        }
        out.push_str("\n],\"stolen\":[");
        for (i, s) in stolen.iter().enumerate() {
            if i > 0 {
                out.push(',');
            }
            esc(s, &mut out);
        }
        let _ = write!(out, "],\"nbodies\":{}}}\n", n);
        let kind = if is_test {
            "test"
        } else if ctype.contains("Executable") {
            "bin"
        } else {
            "lib"
        };
        let path = format!("{}/{}-{}.json", self.out_dir, crate_name, kind);
        std::fs::write(&path, out).expect("write facts");
        Compilation::Continue
    }
}

struct NoCb;
impl rustc_driver::Callbacks for NoCb {}

fn main() {
    let mut args: Vec<String> = std::env::args().collect();
    // RUSTC_WORKSPACE_WRAPPER: argv[1] is the path of the real rustc
    if args.len() > 1 && (args[1].ends_with("rustc") || args[1].contains("/rustc")) {
        args.remove(1);
    }
    let crate_name = args
        .iter()
        .position(|a| a == "--crate-name")
        .and_then(|i| args.get(i + 1))
        .cloned()
        .unwrap_or_default();
    let wanted = std::env::var("PGCAT_FACTS_CRATES").unwrap_or_else(|_| "pgcat".to_string());
    let out_dir = std::env::var("PGCAT_FACTS_OUT").unwrap_or_default();
    let is_query = args.iter().any(|a| a.starts_with("--print") || a == "-vV" || a == "--version");
    if !is_query && !out_dir.is_empty() && wanted.split(',').any(|w| w == crate_name) {
        let mut cb = Cb { out_dir, run_id: std::env::var("PGCAT_FACTS_RUN_ID").unwrap_or_default() };
        rustc_driver::run_compiler(&args, &mut cb);
    } else {
        rustc_driver::run_compiler(&args, &mut NoCb);
    }
}

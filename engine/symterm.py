"""Term reconstruction of straight-line / branching integer code from MIR facts (no loops, no solver).

Every value becomes a term of a free algebra over the function's parameters: ints are folded with
their bit width, everything else stays syntactic.  Used to compare pgcat's hash code with the term
obtained from a transcription of PostgreSQL's hashfn.c (checks/c06.py).  This is value numbering /
def-use reconstruction, not an evaluation on inputs."""
from mirlib import *

WIDTH = {"u8": 8, "i8": 8, "u16": 16, "i16": 16, "u32": 32, "i32": 32, "u64": 64, "i64": 64, "usize": 64, "isize": 64, "u128": 128, "i128": 128, "bool": 1, "char": 32}


def mask(v, w):
    return v & ((1 << w) - 1)


def mk(op, w, *args):
    """smart constructor with constant folding"""
    if all(isinstance(a, int) for a in args):
        a = args
        if op == "add":
            return mask(a[0] + a[1], w)
        if op == "sub":
            return mask(a[0] - a[1], w)
        if op == "xor":
            return a[0] ^ a[1]
        if op == "or":
            return a[0] | a[1]
        if op == "and":
            return a[0] & a[1]
        if op == "shl":
            return mask(a[0] << a[1], w)
        if op == "shr":
            return a[0] >> a[1]
        if op == "not":
            return mask(~a[0], w)
        if op == "trunc" or op == "zext":
            return mask(a[0], w)
        if op == "lt":
            return int(a[0] < a[1])
        if op == "eq":
            return int(a[0] == a[1])
    if op in ("add", "xor", "or", "and") and len(args) == 2:
        # commutative: canonical operand order (operand order is not behaviour)
        args = tuple(sorted(args, key=repr))
    if op in ("zext", "trunc") and len(args) == 1 and isinstance(args[0], tuple) and args[0][0] in ("zext", "trunc") and args[0][1] == w:
        return args[0]
    return (op, w) + tuple(args)


class SymEval:
    def __init__(self, F, inline_prefix="pgcat::sharding::"):
        self.F = F
        self.prefix = inline_prefix
        self.consts = {}

    def const_item(self, name):
        if name not in self.consts:
            b = self.F.body(strip_generics(name))
            v = None
            if b is not None:
                for blk, i, st in b.assigns():
                    if st["lhs"]["l"] == 0 and st["rv"]["k"] == "use":
                        v = const_int(st["rv"]["op"])
            self.consts[name] = v
        return self.consts[name]

    def ty_w(self, ty):
        return WIDTH.get(ty.strip(), 64)

    def signed(self, ty):
        return ty.strip().startswith("i")

    def run(self, fname, args, depth=0):
        """returns list of (path_condition_terms, return_term)"""
        body = self.F.body(fname)
        if body is None:
            raise KeyError(fname)
        env0 = {}
        for i, a in enumerate(args):
            env0[(i + 1, ())] = a
        out = []
        stack = [(0, env0, [])]
        steps = 0
        while stack:
            b, env, pc = stack.pop()
            while True:
                steps += 1
                if steps > 5000:
                    raise RuntimeError("symbolic walk too long in " + fname)
                blk = body.blocks[b]
                for st in blk["stmts"]:
                    if st["k"] != "assign":
                        continue
                    val = self.rvalue(body, env, st["rv"], st["lhs"])
                    self.store(env, st["lhs"], val)
                t = blk["term"]
                k = t["k"]
                if k in ("goto", "falseedge", "falseunwind"):
                    b = t["target"]
                elif k == "assert":
                    b = t["target"]
                elif k == "drop":
                    b = t["target"]
                elif k == "return":
                    out.append((pc, self.load(env, {"l": 0, "p": []}, body)))
                    break
                elif k == "call":
                    c = Call(body, b, t)
                    argv = [self.operand(body, env, a) for a in t["args"]]
                    val = self.call(body, c, argv, depth)
                    self.store(env, t["dest"], val)
                    if t["target"] is None:
                        break
                    b = t["target"]
                elif k == "switch":
                    cond = self.operand(body, env, t["op"])
                    if isinstance(cond, int):
                        tgt = t["otherwise"]
                        for v, tb in t["targets"]:
                            if v == cond:
                                tgt = tb
                        b = tgt
                    else:
                        seen = set()
                        for v, tb in t["targets"]:
                            stack.append((tb, dict(env), pc + [("eq", cond, v)]))
                            seen.add(v)
                        stack.append((t["otherwise"], dict(env), pc + [("notin", cond, tuple(sorted(seen)))]))
                        break
                else:
                    break
        return out

    # ---- memory model: env maps (local, projection-tuple) -> term ; tuples are stored field-wise
    def store(self, env, place, val):
        key = (place["l"], tuple(place["p"]))
        if isinstance(val, tuple) and val and val[0] == "tuple":
            for i, v in enumerate(val[1:]):
                env[(place["l"], tuple(place["p"]) + (".%d" % i,))] = v
        env[key] = val

    def load(self, env, place, body):
        key = (place["l"], tuple(place["p"]))
        if key in env:
            return env[key]
        # field of a symbolic param (e.g. (*self).shards)
        base = (place["l"], ())
        fields = [p[1:] for p in place["p"] if p.startswith(".")]
        if base in env and fields:
            return ("field", env[base], ".".join(fields))
        if place["p"] and place["p"][0] == "*":
            return self.load(env, {"l": place["l"], "p": place["p"][1:]}, body)
        return ("unknown", "_%d%s" % (place["l"], "".join(place["p"])))

    def operand(self, body, env, op):
        c = op_const(op)
        if c is not None:
            if "int" in c:
                return c["int"]
            if "uneval" in c:
                v = self.const_item(c["uneval"])
                if v is not None:
                    return v
            if c.get("s") in ("true", "false"):
                return int(c["s"] == "true")
            return ("const", c.get("s"))
        pl = op_place(op)
        if pl is not None:
            return self.load(env, pl, body)
        return ("unknown", "op")

    def rvalue(self, body, env, rv, lhs):
        k = rv["k"]
        lty = body.locals[lhs["l"]]["ty"] if not lhs["p"] else ""
        w = self.ty_w(lty)
        if k == "use":
            return self.operand(body, env, rv["op"])
        if k == "ref":
            return self.load(env, rv["pl"], body)
        if k == "cast":
            v = self.operand(body, env, rv["op"])
            tw = self.ty_w(rv["ty"])
            src = rv["op"]
            sw_ = None
            pl = op_place(src)
            if pl is not None and not pl["p"]:
                sw_ = self.ty_w(body.locals[pl["l"]]["ty"])
            elif op_const(src) is not None:
                sw_ = self.ty_w(op_const(src)["ty"])
            if sw_ is not None and sw_ == tw:
                return v
            if sw_ is not None and tw > sw_:
                return mk("zext", tw, v)
            return mk("trunc", tw, v)
        if k == "bin":
            a = self.operand(body, env, rv["a"])
            b = self.operand(body, env, rv["b"])
            op = rv["op"]
            ow = w
            if op.endswith("WithOverflow"):
                base = op[: -len("WithOverflow")].lower()
                pl = op_place(rv["a"]) or op_place(rv["b"])
                ow = self.ty_w(body.locals[pl["l"]]["ty"]) if pl and not pl["p"] else (self.ty_w(op_const(rv["a"])["ty"]) if op_const(rv["a"]) else 32)
                return ("tuple", mk(base, ow, a, b), 0)
            pa = op_place(rv["a"])
            aty = body.locals[pa["l"]]["ty"] if pa and not pa["p"] else (op_const(rv["a"])["ty"] if op_const(rv["a"]) else lty)
            aw = self.ty_w(aty)
            m = {"Add": "add", "Sub": "sub", "BitXor": "xor", "BitOr": "or", "BitAnd": "and", "Shl": "shl", "Rem": "rem", "Div": "div", "Mul": "mul"}
            if op in m:
                return mk(m[op], aw, a, b)
            if op == "Shr":
                return mk("sar" if self.signed(aty) else "shr", aw, a, b)
            if op in ("Lt", "Le", "Gt", "Ge", "Eq", "Ne"):
                return mk(op.lower() + ("s" if self.signed(aty) else ""), aw, a, b)
            return ("binop", op, a, b)
        if k == "un":
            a = self.operand(body, env, rv["a"])
            pa = op_place(rv["a"])
            aw = self.ty_w(body.locals[pa["l"]]["ty"]) if pa and not pa["p"] else w
            if rv["op"] == "Not":
                return mk("not", aw, a)
            return ("unop", rv["op"], a)
        if k == "agg":
            if rv.get("agg") == "tuple":
                return ("tuple",) + tuple(self.operand(body, env, o) for o in rv["ops"])
            return ("agg", rv.get("adt") or rv.get("agg")) + tuple(self.operand(body, env, o) for o in rv["ops"])
        if k == "discr":
            return ("discr", self.load(env, rv["pl"], body))
        return ("unknown", k)

    def call(self, body, c, argv, depth):
        n = c.name
        m = re.match(r"^core::num::<impl (u|i)(8|16|32|64|size)>::wrapping_(add|sub)$", n)
        if m:
            w = 64 if m.group(2) == "size" else int(m.group(2))
            return mk(m.group(3), w, argv[0], argv[1])
        if n == "core::mem::size_of":
            t = c.targs[0] if c.targs else ""
            return WIDTH.get(t, 64) // 8
        if n.startswith(self.prefix) and depth < 6 and self.F.body(n) is not None:
            res = self.run(n, argv, depth + 1)
            if len(res) == 1 and not res[0][0]:
                return res[0][1]
            return ("paths", n, tuple((tuple(pc), v) for pc, v in res))
        return ("call", n) + tuple(argv)


def show(t, depth=0):
    if isinstance(t, int):
        return hex(t)
    if isinstance(t, tuple):
        if t[0] in ("sym",):
            return t[1]
        return "%s(%s)" % (t[0] + (str(t[1]) if len(t) > 1 and isinstance(t[1], int) and t[0] not in ("eq", "notin") else ""), ", ".join(show(x) for x in (t[2:] if len(t) > 1 and isinstance(t[1], int) and t[0] not in ("eq", "notin") else t[1:])))
    return str(t)

"""Rule library over the MIR fact files written by engine/driver (pgcat-facts).

Everything here is a query over the *type-checked, resolved* program:
CFG reachability with forbidden edges, dominators, value edges of SwitchInt
terminators, intra-procedural def-use with transparent-callee summaries,
who-may-call / who-may-write enumerations.  No rule keys on text or positions.
"""
import json
import re
from collections import defaultdict, deque

# --------------------------------------------------------------------------
# names


def strip_generics(name):
    """pgcat::client::Client::<S, T>::handle -> pgcat::client::Client::handle
    (only plain `::<args>` segments are removed; `<X as Trait>::m` and
    `::<impl Trait for X>::m` segments are kept)."""
    out = []
    i = 0
    n = len(name)
    while i < n:
        if name.startswith("::<", i):
            depth = 0
            j = i + 2
            while j < n:
                if name[j] == "<":
                    depth += 1
                elif name[j] == ">" and name[j - 1] != "-":
                    depth -= 1
                    if depth == 0:
                        break
                j += 1
            seg = name[i + 3:j]
            if seg.startswith("impl ") or _has_top_as(seg):
                out.append(name[i:j + 1])
            i = j + 1
            continue
        out.append(name[i])
        i += 1
    return "".join(out)


def _has_top_as(seg):
    depth = 0
    for k, ch in enumerate(seg):
        if ch in "<([":
            depth += 1
        elif ch in ">)]" and seg[k - 1] != "-":
            depth -= 1
        elif depth == 0 and seg.startswith(" as ", k):
            return True
    return False


class Call:
    __slots__ = ("body", "block", "term", "name", "defn", "full", "args", "dest", "target", "unwind", "span", "exp", "trait", "targs")

    def __init__(self, body, block, term):
        self.body = body
        self.block = block
        self.term = term
        fn = term["fn"]
        self.defn = strip_generics(fn.get("def") or "")
        res = fn.get("res")
        self.name = strip_generics(res) if res else (self.defn or ("<fnptr>" if "fnptr" in fn else "<dyn>"))
        self.full = fn.get("resfull") or fn.get("full") or ""
        self.trait = fn.get("trait")
        self.targs = fn.get("targs") or []
        self.args = term.get("args", [])
        self.dest = term.get("dest")
        self.target = term.get("target")
        self.unwind = term.get("unwind")
        self.span = term.get("span", "?")
        self.exp = term.get("exp", False)

    def is_(self, *pats):
        return any(match_name(self.name, p) or match_name(self.defn, p) for p in pats)

    def where(self):
        return "%s @ %s (bb%d of %s)" % (self.name, self.span, self.block, self.body.name)

    def __repr__(self):
        return "Call(%s bb%d %s)" % (self.name, self.block, self.span)


def match_name(name, pat):
    """pat: exact string, or 're:<regex>' (search), or '*suffix' (endswith)."""
    if not name:
        return False
    if pat.startswith("re:"):
        return re.search(pat[3:], name) is not None
    if pat.startswith("*"):
        return name.endswith(pat[1:])
    return name == pat


# --------------------------------------------------------------------------
# operands / places


def op_place(op):
    """place dict of a copy/move operand, else None"""
    if op is None:
        return None
    if "pl" in op and "c" in op:
        return op["pl"]
    return None


def op_local(op):
    p = op_place(op)
    return p["l"] if p else None


def op_const(op):
    return op.get("const") if op and "const" in op else None


def const_int(op):
    c = op_const(op)
    if c is None:
        return None
    if "sint" in c:
        return c["sint"]
    return c.get("int")


def const_str(op):
    c = op_const(op)
    if c is None:
        return None
    s = c.get("str")
    if isinstance(s, list):
        try:
            return bytes(s).decode("latin1")
        except Exception:
            return None
    return s


def const_bytes(op):
    c = op_const(op)
    if c is None:
        return None
    if "bytes" in c:
        return bytes(c["bytes"])
    s = c.get("str")
    if isinstance(s, str):
        return s.encode()
    if isinstance(s, list):
        return bytes(s)
    return None


def arg_strs(body, call):
    """string constants that flow (directly or through refs/moves) into the arguments of a call"""
    out = set()
    for a in call.args:
        for o in origins(body, a):
            if o.kind == "const" and isinstance(o.what, str):
                out.add(o.what)
    return out


def place_str(pl):
    s = "_%d" % pl["l"]
    for p in pl["p"]:
        if p == "*":
            s = "(*%s)" % s
        else:
            s += p
    return s


def proj_fields(pl):
    """names of the field projections of a place, outermost last"""
    return [p[1:] for p in pl["p"] if p.startswith(".")]


def proj_variants(pl):
    return [p[1:] for p in pl["p"] if p.startswith("@")]


# --------------------------------------------------------------------------


class Body:
    def __init__(self, facts, raw, crate_tag):
        self.facts = facts
        self.raw = raw
        self.crate_tag = crate_tag
        self.full_name = raw["def"]
        self.name = strip_generics(raw["def"])
        self.kind = raw["kind"]
        self.span = raw["span"]
        self.argc = raw["argc"]
        self.locals = raw["locals"]
        self.blocks = raw["blocks"]
        self.nblocks = len(self.blocks)
        self._calls = None
        self._succ = {}
        self._pred = {}
        self._dom = {}
        self._defs = None
        self._flow = None
        self.varnames = defaultdict(list)  # local -> names (only projection-free places)
        self.var_places = []
        for v in raw["vars"]:
            self.var_places.append((v["name"], v["pl"], v.get("arg")))
            if not v["pl"]["p"]:
                self.varnames[v["pl"]["l"]].append(v["name"])

    # ---------------------------------------------------------------- CFG
    def term(self, b):
        return self.blocks[b]["term"]

    def edges_of(self, b, kinds="n"):
        """successor list [(dst, kind)] ; kinds subset of 'n' normal, 'u' unwind,
        'd' coroutine-drop (future dropped while suspended)."""
        t = self.blocks[b]["term"]
        k = t["k"]
        out = []
        if k in ("goto", "falseedge", "falseunwind"):
            out.append((t["target"], "n"))
            # imaginary / false unwind edges are not real control flow
        elif k == "switch":
            cv = const_int(t["op"]) if "const" in t["op"] else None
            if cv is None:
                # `_t = const false; switchInt(move _t)`
                pl = op_place(t["op"])
                if pl is not None and not pl["p"]:
                    dl = self.defs().get(pl["l"], [])
                    if len(dl) == 1 and dl[0][0] == "assign" and dl[0][3]["rv"]["k"] == "use" and not dl[0][3]["lhs"]["p"]:
                        cv = const_int(dl[0][3]["rv"]["op"]) if "const" in dl[0][3]["rv"]["op"] else None
            if cv is not None:
                # switch on a literal constant (`if false && ..`): only the matching edge is real
                tgt = t["otherwise"]
                for v, tb in t["targets"]:
                    if v == cv:
                        tgt = tb
                out.append((tgt, "n"))
            else:
                seen = set()
                for _, tb in t["targets"]:
                    if tb not in seen:
                        seen.add(tb)
                        out.append((tb, "n"))
                if t["otherwise"] not in seen:
                    out.append((t["otherwise"], "n"))
        elif k in ("call", "drop", "assert", "yield"):
            if t.get("target") is not None:
                out.append((t["target"], "n"))
            if t.get("unwind") is not None:
                out.append((t["unwind"], "u"))
            if t.get("cdrop") is not None:
                out.append((t["cdrop"], "d"))
        return [(d, kk) for d, kk in out if kk in kinds]

    def succ(self, kinds="n"):
        if kinds not in self._succ:
            self._succ[kinds] = [[d for d, _ in self.edges_of(b, kinds)] for b in range(self.nblocks)]
        return self._succ[kinds]

    def pred(self, kinds="n"):
        if kinds not in self._pred:
            p = [[] for _ in range(self.nblocks)]
            for b, ss in enumerate(self.succ(kinds)):
                for s in ss:
                    p[s].append(b)
            self._pred[kinds] = p
        return self._pred[kinds]

    def reach(self, starts, kinds="n", avoid_edges=(), avoid_blocks=(), want_parents=False):
        """blocks reachable from `starts` (inclusive) without entering
        avoid_blocks and without taking avoid_edges."""
        avoid_edges = set(avoid_edges)
        avoid_blocks = set(avoid_blocks)
        succ = self.succ(kinds)
        seen = {}
        dq = deque()
        for s in starts:
            if s in avoid_blocks:
                continue
            if s not in seen:
                seen[s] = None
                dq.append(s)
        while dq:
            b = dq.popleft()
            for s in succ[b]:
                if s in seen or s in avoid_blocks or (b, s) in avoid_edges:
                    continue
                seen[s] = b
                dq.append(s)
        return seen if want_parents else set(seen)

    def reach_from_edges(self, edges, **kw):
        """reach starting *after* taking each (src,dst) edge"""
        return self.reach([d for _, d in edges], **kw)

    def path(self, parents, dst):
        p = []
        while dst is not None:
            p.append(dst)
            dst = parents.get(dst)
        return list(reversed(p))

    def uncrossed_path(self, starts, targets, edges=(), blocks=(), kinds="n"):
        """None if every path from `starts` to any of `targets` crosses one of
        `edges` (or enters one of `blocks`); otherwise a witness path."""
        targets = set(targets)
        par = self.reach(starts, kinds=kinds, avoid_edges=edges, avoid_blocks=blocks, want_parents=True)
        hit = [t for t in targets if t in par]
        if not hit:
            return None
        return self.path(par, min(hit))

    def describe_path(self, path, maxn=14):
        """calls along a block path, for reports"""
        out = []
        for b in path:
            t = self.blocks[b]["term"]
            if t["k"] == "call":
                c = Call(self, b, t)
                if c.name.startswith("pgcat::") and not c.name.endswith("{closure#0}"):
                    out.append("bb%d:%s@%s" % (b, c.name.split("::")[-1], c.span.split("/")[-1]))
        if len(out) > maxn:
            out = out[: maxn // 2] + ["..."] + out[-maxn // 2:]
        return out

    def backreach(self, targets, kinds="n", avoid_edges=(), avoid_blocks=()):
        avoid_edges = set(avoid_edges)
        avoid_blocks = set(avoid_blocks)
        pred = self.pred(kinds)
        seen = set()
        dq = deque()
        for t in targets:
            if t not in avoid_blocks and t not in seen:
                seen.add(t)
                dq.append(t)
        while dq:
            b = dq.popleft()
            for p in pred[b]:
                if p in seen or p in avoid_blocks or (p, b) in avoid_edges:
                    continue
                seen.add(p)
                dq.append(p)
        return seen

    def dominators(self, kinds="n"):
        """idom array (entry = 0); unreachable blocks have idom None"""
        if kinds in self._dom:
            return self._dom[kinds]
        succ = self.succ(kinds)
        pred = self.pred(kinds)
        order = []
        seen = [False] * self.nblocks
        stack = [(0, iter(succ[0]))]
        seen[0] = True
        while stack:
            b, it = stack[-1]
            adv = False
            for s in it:
                if not seen[s]:
                    seen[s] = True
                    stack.append((s, iter(succ[s])))
                    adv = True
                    break
            if not adv:
                order.append(b)
                stack.pop()
        rpo = list(reversed(order))
        idx = {b: i for i, b in enumerate(rpo)}
        idom = [None] * self.nblocks
        idom[0] = 0

        def inter(a, b):
            while a != b:
                while idx[a] > idx[b]:
                    a = idom[a]
                while idx[b] > idx[a]:
                    b = idom[b]
            return a

        changed = True
        while changed:
            changed = False
            for b in rpo[1:]:
                new = None
                for p in pred[b]:
                    if p in idx and idom[p] is not None:
                        new = p if new is None else inter(p, new)
                if new is not None and idom[b] != new:
                    idom[b] = new
                    changed = True
        self._dom[kinds] = idom
        return idom

    def dominates(self, a, b, kinds="n"):
        """block a dominates block b (reflexive)"""
        idom = self.dominators(kinds)
        if idom[b] is None:
            return False
        while True:
            if a == b:
                return True
            if b == 0:
                return False
            b = idom[b]
            if b is None:
                return False

    def postdominators(self, kinds="n"):
        """ipdom array over normal edges with a virtual exit (index nblocks);
        exits = blocks without successors of the given kinds"""
        key = "pd" + kinds
        if key in self._dom:
            return self._dom[key]
        n = self.nblocks
        succ = self.succ(kinds)
        EXIT = n
        rsucc = [[] for _ in range(n + 1)]  # reversed graph successors = original preds
        rpred = [[] for _ in range(n + 1)]
        for b in range(n):
            outs = succ[b] or [EXIT]
            for s_ in outs:
                rsucc[s_].append(b)
                rpred[b].append(s_)
        order = []
        seen = [False] * (n + 1)
        stack = [(EXIT, iter(rsucc[EXIT]))]
        seen[EXIT] = True
        while stack:
            b, it = stack[-1]
            adv = False
            for s_ in it:
                if not seen[s_]:
                    seen[s_] = True
                    stack.append((s_, iter(rsucc[s_])))
                    adv = True
                    break
            if not adv:
                order.append(b)
                stack.pop()
        rpo = list(reversed(order))
        idx = {b: i for i, b in enumerate(rpo)}
        ipdom = [None] * (n + 1)
        ipdom[EXIT] = EXIT

        def inter(a, b):
            while a != b:
                while idx[a] > idx[b]:
                    a = ipdom[a]
                while idx[b] > idx[a]:
                    b = ipdom[b]
            return a

        changed = True
        while changed:
            changed = False
            for b in rpo[1:]:
                new = None
                for p in rpred[b]:
                    if p in idx and ipdom[p] is not None:
                        new = p if new is None else inter(p, new)
                if new is not None and ipdom[b] != new:
                    ipdom[b] = new
                    changed = True
        self._dom[key] = ipdom
        return ipdom

    def postdominates(self, a, b, kinds="n"):
        ip = self.postdominators(kinds)
        if ip[b] is None:
            return False
        EXIT = self.nblocks
        while True:
            if a == b:
                return True
            if b == EXIT:
                return False
            b = ip[b]
            if b is None:
                return False

    def direct_control_deps(self, b, kinds="n"):
        """(switch_block, successor) pairs b is directly control dependent on"""
        res = []
        succ = self.succ(kinds)
        for sb in range(self.nblocks):
            if self.blocks[sb]["term"]["k"] != "switch" or len(succ[sb]) < 2:
                continue
            if self.postdominates(b, sb, kinds) and b != sb:
                continue
            for t in succ[sb]:
                if self.postdominates(b, t, kinds):
                    res.append((sb, t))
        return res

    def control_deps(self, b, kinds="n", depth=6):
        """switch blocks (and the edge taken) that block b is transitively control dependent on:
        list of (switch_block, successor)"""
        res = []
        seen = set()
        work = [(b, 0)]
        succ = self.succ(kinds)
        while work:
            x, d = work.pop()
            if d > depth:
                continue
            for sb in range(self.nblocks):
                if self.blocks[sb]["term"]["k"] != "switch":
                    continue
                if self.postdominates(x, sb, kinds) and x != sb:
                    continue
                for t in succ[sb]:
                    if self.postdominates(x, t, kinds):
                        if (sb, t) not in seen:
                            seen.add((sb, t))
                            res.append((sb, t))
                            work.append((sb, d + 1))
        return res

    # ---------------------------------------------------------------- calls
    def calls(self, *pats):
        if self._calls is None:
            self._calls = [Call(self, b, blk["term"]) for b, blk in enumerate(self.blocks) if blk["term"]["k"] == "call"]
        if not pats:
            return self._calls
        return [c for c in self._calls if c.is_(*pats)]

    def call_at(self, b):
        t = self.blocks[b]["term"]
        return Call(self, b, t) if t["k"] == "call" else None

    # ---------------------------------------------------------------- defs / flow
    def defs(self):
        """local -> list of ('assign', block, stmt_idx, stmt) | ('call', block, Call) | ('yield', block)"""
        if self._defs is None:
            d = defaultdict(list)
            for b, blk in enumerate(self.blocks):
                for i, st in enumerate(blk["stmts"]):
                    if st["k"] == "assign":
                        d[st["lhs"]["l"]].append(("assign", b, i, st))
                t = blk["term"]
                if t["k"] == "call" and t.get("dest") is not None:
                    d[t["dest"]["l"]].append(("call", b, Call(self, b, t)))
            self._defs = d
        return self._defs

    def assigns(self):
        for b, blk in enumerate(self.blocks):
            for i, st in enumerate(blk["stmts"]):
                if st["k"] == "assign":
                    yield b, i, st

    def local_ty(self, l):
        return self.locals[l]["ty"]

    def local_name(self, l):
        n = self.varnames.get(l)
        return n[0] if n else "_%d" % l

    def locals_named(self, name):
        return [l for l, ns in self.varnames.items() if name in ns]


def cond_locals(body, sb, depth=2):
    """locals that the condition tested at switch block `sb` depends on: data origins of the operand,
    plus (for `matches!`-style merges where the operand is assigned constants in several blocks) the
    locals tested by the switches those assignments are control dependent on"""
    vis = set()
    op = body.blocks[sb]["term"]["op"]
    origins(body, op, visited=vis, taint=True)
    if depth > 0:
        pl = op_place(op)
        roots = set(vis)
        for l in list(roots):
            dl = body.defs().get(l, [])
            if len(dl) > 1 and all(d_[0] == "assign" for d_ in dl) and any(d_[3]["rv"]["k"] == "use" and "const" in d_[3]["rv"]["op"] for d_ in dl):
                for d_ in dl:
                    for sb2, t2 in body.direct_control_deps(d_[1]):
                        if sb2 != sb:
                            vis |= cond_locals(body, sb2, depth - 1)
    return vis


def all_places(body):
    """every place mentioned in the body: yields (block, place, how) with how in
    'read' | 'write' | 'ref' | 'refmut' | 'arg' | 'switch' | 'drop'"""
    def ops(op, b, how):
        p = op_place(op)
        if p is not None:
            yield b, p, how
    for b, blk in enumerate(body.blocks):
        for st in blk["stmts"]:
            if st["k"] != "assign":
                continue
            yield b, st["lhs"], "write"
            rv = st["rv"]
            k = rv["k"]
            if k in ("use", "cast", "repeat"):
                yield from ops(rv["op"], b, "read")
            elif k in ("ref", "rawptr"):
                yield b, rv["pl"], "refmut" if rv.get("mut") else "ref"
            elif k == "discr":
                yield b, rv["pl"], "read"
            elif k == "bin":
                yield from ops(rv["a"], b, "read")
                yield from ops(rv["b"], b, "read")
            elif k == "un":
                yield from ops(rv["a"], b, "read")
            elif k == "agg":
                for o in rv["ops"]:
                    yield from ops(o, b, "read")
        t = blk["term"]
        if t["k"] == "call":
            for a in t["args"]:
                yield from ops(a, b, "arg")
            yield b, t["dest"], "write"
        elif t["k"] == "switch":
            yield from ops(t["op"], b, "switch")
        elif t["k"] == "drop":
            yield b, t["pl"], "drop"
        elif t["k"] == "assert":
            yield from ops(t["cond"], b, "read")


def fields_read(body):
    """names of all fields that appear in a projection of any place that is read"""
    out = set()
    for b, p, how in all_places(body):
        if how != "write":
            out.update(proj_fields(p))
        else:
            out.update(proj_fields(p)[:-1])
    return out


def back_edges(body, kinds="n"):
    """(u, v) with v dominating u"""
    res = []
    for u, ss in enumerate(body.succ(kinds)):
        for v in ss:
            if body.dominators(kinds)[u] is not None and body.dominates(v, u, kinds):
                res.append((u, v))
    return res


def loop_headers(body, kinds="n"):
    return sorted({v for _, v in back_edges(body, kinds)})


def natural_loop(body, header, kinds="n"):
    """blocks of the natural loop(s) with this header"""
    blocks = {header}
    stack = [u for u, v in back_edges(body, kinds) if v == header]
    pred = body.pred(kinds)
    while stack:
        b = stack.pop()
        if b in blocks:
            continue
        blocks.add(b)
        stack.extend(pred[b])
    return blocks


# transparent callees for provenance: result derives from the listed arg indices
TRANSPARENT = [
    ("re:(^|[ :])Deref>::deref$", (0,)),
    ("re:(^|[ :])DerefMut>::deref_mut$", (0,)),
    ("core::ops::deref::Deref::deref", (0,)),
    ("core::ops::deref::DerefMut::deref_mut", (0,)),
    ("re:Clone>::clone$", (0,)),
    ("core::clone::Clone::clone", (0,)),
    ("re:IntoFuture>::into_future$", (0,)),
    ("core::future::into_future::IntoFuture::into_future", (0,)),
    ("re:^core::pin::Pin::(new_unchecked|new|as_mut|get_mut)$", (0,)),
    ("core::future::future::Future::poll", (0,)),
    ("re:Future>::poll$", (0,)),
    ("re:Try>::branch$", (0,)),
    ("core::ops::try_trait::Try::branch", (0,)),
    ("re:FromResidual<.*>>::from_residual$", (0,)),
    ("re:^core::option::Option::(unwrap|expect|as_ref|as_mut|take|as_deref|as_deref_mut|cloned|copied|unwrap_or|unwrap_or_default)$", (0,)),
    ("re:^core::result::Result::(unwrap|expect|as_ref|as_mut|ok)$", (0,)),
    ("re:^alloc::string::String::(as_str|as_bytes|as_mut_str)$", (0,)),
    ("re:ToString>::to_string$", (0,)),
    ("alloc::string::ToString::to_string", (0,)),
    ("re:(Into|From|AsRef|AsMut)<.*>>::(into|from|as_ref|as_mut)$", (0,)),
    ("re:^core::convert::(Into::into|From::from|AsRef::as_ref|AsMut::as_mut)$", (0,)),
    ("re:(Borrow|BorrowMut)<.*>>::borrow(_mut)?$", (0,)),
    ("re:^alloc::sync::Arc::(new|clone|as_ref)$", (0,)),
    ("re:^alloc::boxed::Box::(new|pin)$", (0,)),
    ("core::hint::must_use", (0,)),
    ("re:^core::mem::(take|replace)$", (0,)),
    ("re:^core::str::(.*::)?(as_str|as_bytes|trim|trim_start|trim_end)$", (0,)),
    ("re:Index(Mut)?<.*>>::index(_mut)?$", (0,)),
    ("re:^core::slice::index::.*index(_mut)?$", (0,)),
    ("re:^alloc::vec::Vec::(as_slice|as_mut_slice)$", (0,)),
    # lock guards derive from the lock they guard
    ("re:^lock_api::mutex::Mutex::(lock|try_lock)$", (0,)),
    ("re:^lock_api::rwlock::RwLock::(read|write|upgradable_read)$", (0,)),
    ("re:^std::sync::(poison::)?(mutex::Mutex|rwlock::RwLock)::(lock|read|write)$", (0,)),
]


def transparent_args(call, extra=()):
    """arg indices the result derives from, or None if the call is opaque"""
    if call.body.is_poll_of_coroutine(call):
        return (0,)
    for pat, idxs in list(extra) + TRANSPARENT:
        if match_name(call.name, pat) or match_name(call.defn, pat):
            return idxs
    return None


def _is_poll_of_coroutine(self, call):
    # `Future::poll` on an async-fn coroutine resolves to `path::{closure#0}`
    return call.defn == "core::future::future::Future::poll" or (call.trait == "core::future::future::Future")


Body.is_poll_of_coroutine = _is_poll_of_coroutine


class Origin:
    """where a value comes from"""

    __slots__ = ("kind", "what", "block", "proj", "neg", "call", "extra")

    def __init__(self, kind, what, block=None, proj=(), neg=False, call=None, extra=None):
        self.kind = kind  # 'call' | 'param' | 'const' | 'place' | 'agg' | 'bin' | 'cast' | 'discr' | 'unknown' | 'yield'
        self.what = what
        self.block = block
        self.proj = tuple(proj)
        self.neg = neg
        self.call = call
        self.extra = extra

    def key(self):
        return (self.kind, str(self.what), self.block, self.proj, self.neg)

    def __repr__(self):
        return "Origin(%s %s bb%s proj=%s%s)" % (self.kind, self.what, self.block, "".join(self.proj), " NEG" if self.neg else "")


def origins(body, start, extra_transparent=(), max_nodes=4000, through_fields=True, visited=None, taint=False, taint_barrier=None, through=None):
    """Backward def-use closure of an operand / place / local inside one body.

    Returns a list of Origin.  Flow-insensitive over locals (MIR temporaries are
    single-assignment; user variables assigned more than once merge all their
    definitions, which over-approximates origins).  `proj` on an Origin is the
    chain of projections that were applied *after* the origin value was
    obtained (e.g. origin call f with proj ('.name',) == f(..).name)."""
    defs = body.defs()
    out = {}
    seen = set()
    dq = deque()

    def push_op(op, proj, neg):
        if op is None:
            return
        c = op_const(op)
        if c is not None:
            if "fn" in c:
                o = Origin("const", "fn:" + strip_generics(c["fn"]), None, proj, neg, extra=c)
            elif "static" in c:
                o = Origin("static", strip_generics(c["static"]), None, proj, neg, extra=c)
            else:
                v = c.get("str") if "str" in c else (c.get("sint", c.get("int")) if ("int" in c or "sint" in c) else c.get("s"))
                o = Origin("const", v, None, proj, neg, extra=c)
            out[o.key()] = o
            return
        pl = op_place(op)
        if pl is not None:
            push_place(pl, proj, neg)

    def push_place(pl, proj, neg):
        # reading place `l.p...` then applying proj
        newproj = tuple(pl["p"]) + tuple(proj)
        st = (pl["l"], newproj, neg)
        if st in seen:
            return
        seen.add(st)
        dq.append(st)

    if isinstance(start, int):
        push_place({"l": start, "p": []}, (), False)
    elif isinstance(start, dict) and "l" in start:
        push_place(start, (), False)
    else:
        push_op(start, (), False)

    n = 0
    while dq:
        l, proj, neg = dq.popleft()
        n += 1
        if visited is not None:
            visited.add(l)
        if n > max_nodes:
            o = Origin("unknown", "budget", None, proj, neg)
            out[o.key()] = o
            break
        if 1 <= l <= body.argc:
            o = Origin("param", l, None, proj, neg)
            out[o.key()] = o
        dl = defs.get(l, [])
        if not dl and not (1 <= l <= body.argc):
            if l == 0:
                continue
            o = Origin("unknown", "nodef:_%d" % l, None, proj, neg)
            out[o.key()] = o
        for d in dl:
            if d[0] == "call":
                call = d[2]
                # only whole-local definitions
                if call.dest["p"]:
                    continue
                idxs = transparent_args(call, extra_transparent)
                if idxs is None:
                    o = Origin("call", call.name, d[1], proj, neg, call=call)
                    out[o.key()] = o
                    if taint and not (taint_barrier and taint_barrier(call)):
                        # taint mode: the result may derive from any argument
                        for a in call.args:
                            push_op(a, (), neg)
                else:
                    # keep a record that we passed through it
                    if through is not None:
                        through.append(call)
                    for i in idxs:
                        if i < len(call.args):
                            # projections do not survive a call boundary, except for
                            # poll/branch/deref-like calls where they select the payload
                            push_op(call.args[i], _surviving_proj(call, proj), neg)
            else:
                _, b, i, st = d
                lhs = st["lhs"]
                rv = st["rv"]
                lp = tuple(lhs["p"])
                # assignment to a sub-place `l.f = v`: relevant only if proj starts with that sub-place
                if lp:
                    if proj[: len(lp)] == lp:
                        rest = proj[len(lp):]
                    else:
                        # writing a field we are not reading (or reading whole value): a whole-value
                        # read is affected by field writes; keep it as partial origin
                        if len(proj) < len(lp) and lp[: len(proj)] == proj:
                            rest = ()
                        else:
                            continue
                else:
                    rest = proj
                k = rv["k"]
                if k == "use":
                    push_op(rv["op"], rest, neg)
                elif k == "ref" or k == "rawptr":
                    # &place : a following '*' cancels
                    if rest and rest[0] == "*":
                        push_place(rv["pl"], rest[1:], neg)
                    else:
                        push_place(rv["pl"], rest, neg)
                elif k == "cast":
                    push_op(rv["op"], rest, neg)
                elif k == "un":
                    if rv["op"] == "Not":
                        push_op(rv["a"], rest, not neg)
                    else:
                        o = Origin("un", rv["op"], b, rest, neg, extra=rv)
                        out[o.key()] = o
                        push_op(rv["a"], rest, neg)
                elif k == "bin":
                    o = Origin("bin", rv["op"], b, rest, neg, extra=rv)
                    out[o.key()] = o
                    if taint:
                        push_op(rv["a"], (), neg)
                        push_op(rv["b"], (), neg)
                elif k == "discr":
                    o = Origin("discr", rv["ty"], b, rest, neg, extra=rv)
                    out[o.key()] = o
                    if taint:
                        push_place(rv["pl"], (), neg)
                elif k == "agg":
                    o = Origin("agg", rv.get("adt") or rv.get("def") or rv.get("agg"), b, rest, neg, extra=rv)
                    out[o.key()] = o
                    if through_fields:
                        # select the operand that `rest` projects, if any
                        sel = None
                        if rest:
                            r0 = rest[0]
                            r1 = rest[1:]
                            if r0.startswith("@") and r1 and r1[0].startswith("."):
                                # (x as Variant).field
                                if rv.get("variant") == r0[1:]:
                                    sel = (r1[0][1:], r1[1:])
                            elif r0.startswith("."):
                                sel = (r0[1:], r1)
                        if sel is not None:
                            fname, r2 = sel
                            names = rv.get("fields")
                            idx = None
                            if names and fname in names:
                                idx = names.index(fname)
                            elif fname.isdigit():
                                idx = int(fname)
                            if idx is not None and idx < len(rv["ops"]):
                                push_op(rv["ops"][idx], r2, neg)
                        else:
                            for op in rv["ops"]:
                                push_op(op, (), neg)
                elif k == "repeat":
                    push_op(rv["op"], (), neg)
                else:
                    o = Origin("unknown", k, b, rest, neg)
                    out[o.key()] = o
        # a projected read also "comes from" the place itself (field of a param etc.)
        if proj:
            o = Origin("place", l, None, proj, neg)
            out[o.key()] = o
    return list(out.values())


def type_head(ty):
    """outermost type constructor of a type string, refs stripped"""
    t = ty.strip()
    while t.startswith("&"):
        t = t[1:].lstrip()
        if t.startswith("'"):
            t = t.split(" ", 1)[1] if " " in t else t
        if t.startswith("mut "):
            t = t[4:]
    for i, ch in enumerate(t):
        if ch in "<(":
            return t[:i]
    return t


def domain_struct_barrier(call):
    """taint barrier: calls that build a domain object (pgcat:: / bb8:: struct) do not pass taint on"""
    if call.dest is None or call.dest["p"]:
        return False
    h = type_head(call.body.locals[call.dest["l"]]["ty"])
    return h.startswith("pgcat::") or h.startswith("bb8::") or h.startswith("impl ") or h.startswith("{")


def _surviving_proj(call, proj):
    # payload selectors (@Ready .0, @Continue .0, @Some .0 ...) and derefs survive wrappers
    return tuple(p for p in proj if p == "*" or p.startswith(".") and not p[1:].isdigit())


def origin_calls(body, start, **kw):
    return [o for o in origins(body, start, **kw) if o.kind == "call"]


def derives_from_call(body, start, *pats, **kw):
    return [o for o in origins(body, start, **kw) if o.kind == "call" and o.call.is_(*pats)]


def place_origin_fields(body, start, **kw):
    """set of field-name tuples read (anywhere along the derivation) from params/self"""
    res = set()
    for o in origins(body, start, **kw):
        if o.kind in ("place", "param") and o.proj:
            res.add(tuple(p[1:] for p in o.proj if p.startswith(".")))
    return res


PANIC_CALLS = [
    ("unwrap", "re:^core::(option::Option|result::Result)::(unwrap|expect|unwrap_err|expect_err)$"),
    ("panic", "re:^core::panicking::(panic|panic_fmt|panic_explicit|unreachable_display|panic_display|assert_failed|panic_nounwind)"),
    ("panic", "re:^std::rt::(begin_panic|panic_fmt)"),
    ("index", "re:Index(Mut)?<.*>>::index(_mut)?$"),
    ("index", "re:^core::slice::index::"),
    ("index", "core::ops::index::Index::index"),
    ("index", "core::ops::index::IndexMut::index_mut"),
    ("buf", "re:^bytes::buf::buf_impl::Buf::(get_[a-z0-9_]+|advance|copy_to_slice|copy_to_bytes|split_to)$"),
    ("buf", "re:bytes::buf::buf_impl::Buf>::(get_[a-z0-9_]+|advance|copy_to_slice|copy_to_bytes)$"),
    ("buf", "re:^bytes::bytes_mut::BytesMut::(split_to|split_off|advance)"),
    ("alloc", "re:^alloc::vec::from_elem$"),
]


def panic_sites(body, include_expansion=True):
    """panic-capable operations in a body: list of dict(kind, block, what, ops, span, exp)"""
    out = []
    for c in body.calls():
        for kind, pat in PANIC_CALLS:
            if c.is_(pat):
                out.append({"kind": kind, "block": c.block, "what": c.name, "ops": c.args, "span": c.span, "exp": c.exp, "call": c})
                break
    for b, blk in enumerate(body.blocks):
        t = blk["term"]
        if t["k"] == "assert":
            out.append({"kind": "assert:" + t["msg"], "block": b, "what": t["msg"], "ops": [t["cond"]], "span": t["span"], "exp": t.get("exp", False), "call": None})
    if not include_expansion:
        out = [o for o in out if not o["exp"] or o["kind"] == "panic"]
    return out


# --------------------------------------------------------------------------
# value edges


class Switch:
    """Semantics of one SwitchInt terminator"""

    def __init__(self, body, b):
        self.body = body
        self.block = b
        t = body.blocks[b]["term"]
        self.term = t
        self.targets = [(v, tb) for v, tb in t["targets"]]
        self.otherwise = t["otherwise"]
        self.ty = t["ty"]
        self.op = t["op"]
        self._orig = None

    def origins(self):
        if self._orig is None:
            self._orig = origins(self.body, self.op)
        return self._orig

    def is_bool(self):
        return self.ty == "bool"

    def bool_edges(self):
        """(true_edge, false_edge) as (src,dst) for a bool switch (no negation applied)"""
        assert self.is_bool()
        # switchInt(x) -> [0: F, otherwise: T]
        f = None
        for v, tb in self.targets:
            if v == 0:
                f = tb
        t = self.otherwise
        if f is None:
            # [1: T, otherwise: F] form
            for v, tb in self.targets:
                if v == 1:
                    t = tb
            f = self.otherwise
        return (self.block, t), (self.block, f)

    def discr(self):
        """for a switch on a discriminant: (adt type string, place, {variant: target}, otherwise)"""
        for o in self.origins():
            if o.kind == "discr" and not o.proj:
                ty = o.what
                adt = self.body.facts.adt_of_type(ty)
                arms = {}
                if adt:
                    byv = {v["discr"]: v["name"] for v in adt["variants"]}
                    for v, tb in self.targets:
                        arms[byv.get(v, str(v))] = tb
                    covered = set(arms)
                    rest = [v["name"] for v in adt["variants"] if v["name"] not in covered]
                else:
                    rest = []
                    for v, tb in self.targets:
                        arms[str(v)] = tb
                return ty, o.extra["pl"], arms, self.otherwise, rest
        return None


def switches(body):
    return [Switch(body, b) for b, blk in enumerate(body.blocks) if blk["term"]["k"] == "switch"]


def reach_with_values(body, starts, var_locals, avoid_blocks=(), avoid_edges=(), max_states=400000):
    """blocks reachable from `starts` on paths that are consistent about (a) the integer variable(s) `var_locals` (one source variable,
    possibly copied/cast): a path that took the arm for value v cannot later take the arm for another value; and (b) temporaries that are
    assigned a constant and switched on later (`matches!(..)` / `a && b` materialise a bool in each arm and test it after the merge).
    Normal edges only. Returns the set of reachable blocks."""
    var_locals = set(var_locals)
    avoid_blocks = set(avoid_blocks)
    avoid_edges = set(avoid_edges)
    sws = {sw.block: sw for sw in switches(body)}
    sw_on_var = {}
    direct = {}          # switch block -> local tested directly
    for b, sw in sws.items():
        t = body.blocks[b]["term"]
        l = op_local(t["op"])
        if l is not None and not (t["op"].get("pl") or {}).get("p"):
            direct[b] = l
        if not sw.is_bool():
            vis = set()
            origins(body, t["op"], visited=vis)
            if vis & var_locals:
                sw_on_var[b] = sw
    tracked = set(direct.values())
    # constant assignments to tracked temporaries, and copies between them, per block (in order)
    const_assign = {}
    for b, blk in enumerate(body.blocks):
        ops = []
        for st in blk["stmts"]:
            if st["k"] == "assign" and not st["lhs"]["p"] and st["lhs"]["l"] in tracked:
                if st["rv"]["k"] == "use":
                    c_ = const_int(st["rv"]["op"])
                    src = op_local(st["rv"]["op"])
                    if c_ is not None:
                        ops.append((st["lhs"]["l"], ("c", c_)))
                    elif src in tracked and not (st["rv"]["op"].get("pl") or {}).get("p"):
                        ops.append((st["lhs"]["l"], ("l", src)))
                    else:
                        ops.append((st["lhs"]["l"], None))
                elif st["rv"]["k"] == "un" and st["rv"].get("op_") in ("Not",) or (st["rv"]["k"] == "unary"):
                    ops.append((st["lhs"]["l"], None))
                else:
                    ops.append((st["lhs"]["l"], None))
        # a call defines its destination
        t = blk["term"]
        if t["k"] == "call" and t.get("dest") and not t["dest"]["p"] and t["dest"]["l"] in tracked:
            ops.append((t["dest"]["l"], None))
        if ops:
            const_assign[b] = ops
    succ = body.succ("n")
    seen = set()
    dq = deque((b, None, frozenset()) for b in starts)
    out = set()
    while dq and len(seen) < max_states:
        b, allowed, env = dq.popleft()
        if (b, allowed, env) in seen or b in avoid_blocks:
            continue
        seen.add((b, allowed, env))
        out.add(b)
        if b in const_assign:
            e = dict(env)
            for l, v in const_assign[b]:
                if v is None:
                    e.pop(l, None)
                elif v[0] == "c":
                    e[l] = v[1]
                elif v[1] in e:
                    e[l] = e[v[1]]
                else:
                    e.pop(l, None)
            env = frozenset(e.items())
        sw = sws.get(b)
        if sw is None:
            for v in succ[b]:
                if (b, v) not in avoid_edges:
                    dq.append((v, allowed, env))
            continue
        envd = dict(env)
        if b in direct and direct[b] in envd and b not in sw_on_var:
            val = envd[direct[b]]
            tgt = next((t_ for v_, t_ in sw.targets if v_ == val), sw.otherwise)
            if tgt is not None and (b, tgt) not in avoid_edges:
                dq.append((tgt, allowed, env))
            continue
        if b not in sw_on_var:
            for v in succ[b]:
                if (b, v) not in avoid_edges:
                    dq.append((v, allowed, env))
            continue
        explicit = {val for val, _ in sw.targets}
        for val, tgt in sw.targets:
            ok_val = allowed is None or (val not in allowed[1] if isinstance(allowed, tuple) else val in allowed)
            if ok_val and (b, tgt) not in avoid_edges:
                dq.append((tgt, frozenset([val]), env))
        if sw.otherwise is not None and (b, sw.otherwise) not in avoid_edges:
            if allowed is None:
                dq.append((sw.otherwise, ("not", frozenset(explicit)), env))
            elif isinstance(allowed, tuple):
                dq.append((sw.otherwise, ("not", allowed[1] | frozenset(explicit)), env))
            else:
                rest = frozenset(allowed - explicit)
                if rest:
                    dq.append((sw.otherwise, rest, env))
    return out


def bool_value_edges(body, pred, switches_cache=None):
    """For every bool SwitchInt whose tested value has an origin o with pred(o)
    true, yield (switch, true_edges, false_edges) in terms of the ORIGIN value
    (negations folded in).  An origin reached with odd Not-parity swaps edges."""
    res = []
    for sw in switches_cache if switches_cache is not None else switches(body):
        if not sw.is_bool():
            continue
        for o in sw.origins():
            if o.proj and o.kind not in ("place", "param"):
                # a projected value (e.g. payload of Ready) is still the call's value for awaits;
                # accept only payload/deref projections
                if any(p.startswith(".") and not p[1:].isdigit() for p in o.proj):
                    continue
            if pred(o):
                te, fe = sw.bool_edges()
                if o.neg:
                    te, fe = fe, te
                res.append((sw, o, te, fe))
    return res


def call_bool_edges(body, *pats, switches_cache=None):
    """edges on which (awaited) call result of callee pats is True / False.
    Returns (true_edges:set, false_edges:set, sites:list of Call)."""
    T, F, sites = set(), set(), []
    for sw, o, te, fe in bool_value_edges(body, lambda o: o.kind == "call" and o.call.is_(*pats), switches_cache):
        T.add(te)
        F.add(fe)
        sites.append(o.call)
    return T, F, sites


def field_bool_edges(body, field, switches_cache=None):
    """edges on which a bool read of `<anything>.field` is True / False"""
    T, F = set(), set()
    for sw, o, te, fe in bool_value_edges(
        body, lambda o: o.kind == "place" and o.proj and o.proj[-1] == "." + field, switches_cache
    ):
        T.add(te)
        F.add(fe)
    return T, F


def discr_edges(body, ty_pat, variant, origin_pred=None, switches_cache=None):
    """edges taken when a value of enum type matching ty_pat is `variant`;
    returns (edges_variant:set, edges_other:set, switches)"""
    V, O, S = set(), set(), []
    for sw in switches_cache if switches_cache is not None else switches(body):
        d = sw.discr()
        if not d:
            continue
        ty, pl, arms, otherwise, rest = d
        if not re.search(ty_pat, ty):
            continue
        if origin_pred is not None:
            os_ = origins(body, pl)
            if not any(origin_pred(o) for o in os_):
                continue
        S.append(sw)
        alltargets = set(arms.values()) | {otherwise}
        if variant in arms:
            vt = arms[variant]
        elif variant in rest:
            vt = otherwise
        else:
            continue
        V.add((sw.block, vt))
        for t in alltargets:
            if t != vt:
                O.add((sw.block, t))
    return V, O, S


# --------------------------------------------------------------------------
# awaits


def awaited_result(body, call):
    """For a call that creates a future (async fn call), find the poll call(s)
    that poll it and the locals holding the Ready payload.
    Returns list of dict(poll=Call, ready_locals=[...], ready_blocks=[...])"""
    res = []
    if call.dest is None:
        return res
    fut_local = call.dest["l"]
    for pc in body.calls():
        if not body.is_poll_of_coroutine(pc):
            continue
        os_ = origins(body, pc.args[0]) if pc.args else []
        if any(o.kind == "call" and o.call.block == call.block for o in os_):
            ready_locals, ready_blocks = [], []
            pl = pc.dest["l"]
            for b, i, st in body.assigns():
                rv = st["rv"]
                if rv["k"] == "use":
                    p = op_place(rv["op"])
                    if p and p["l"] == pl and "@Ready" in p["p"]:
                        ready_locals.append(st["lhs"]["l"])
                        ready_blocks.append(b)
            res.append({"poll": pc, "ready_locals": ready_locals, "ready_blocks": ready_blocks})
    return res


# --------------------------------------------------------------------------
# Facts (whole program)


def _norm_ty(t):
    """type string without lifetimes / spaces, for matching type arguments against impl headers"""
    return re.sub(r"'[a-z_]+ ?", "", t).replace(" ", "")


class Facts:
    def __init__(self, paths):
        self.bodies = {}
        self.raw = []
        self.adts = {}
        self.impls = []
        self.statics = {}
        self.fns = {}
        self.meta = []
        for p in paths:
            with open(p) as f:
                r = json.load(f)
            self.raw.append(r)
            tag = "bin" if "Executable" in r["crate_types"] else "lib"
            self.meta.append({"path": p, "crate": r["crate"], "tag": tag, "nbodies": r["nbodies"], "run_id": r["run_id"], "panic": r["panic_strategy"], "stolen": r["stolen"]})
            for b in r["bodies"]:
                body = Body(self, b, tag)
                key = body.name
                if tag == "bin":
                    key = "bin:" + key
                    body.name = key
                self.bodies[key] = body
            for a in r["adts"]:
                self.adts.setdefault(strip_generics(a["name"]), a)
            for im in r["impls"]:
                im = dict(im)
                im["tag"] = tag
                self.impls.append(im)
            for s in r["statics"]:
                self.statics[("bin:" if tag == "bin" else "") + s["name"]] = s
            for fn in r["fns"]:
                self.fns[("bin:" if tag == "bin" else "") + strip_generics(fn["def"])] = fn

    def body(self, name):
        return self.bodies.get(name)

    def find_bodies(self, pat):
        return [b for n, b in self.bodies.items() if match_name(n, pat)]

    def adt_of_type(self, ty):
        """ADT entry for a type string like `std::option::Option<usize>` / `&pgcat::x::Y`"""
        t = ty.strip()
        while t.startswith("&"):
            t = t[1:].lstrip()
            if t.startswith("mut "):
                t = t[4:]
            if t.startswith("'"):
                t = t.split(" ", 1)[1] if " " in t else t
        # cut generics
        depth = 0
        base = []
        for ch in t:
            if ch == "<":
                break
            base.append(ch)
        base = "".join(base)
        return self.adts.get(base)

    def all_calls(self, *pats):
        for b in self.bodies.values():
            for c in b.calls(*pats):
                yield c

    def callers_of(self, *pats):
        return sorted({c.body.name for c in self.all_calls(*pats)})

    def field_writes(self, adt_field_pred):
        """all assignments whose lhs place ends in a field projection satisfying pred(field, body, stmt)"""
        for b in self.bodies.values():
            for blk, i, st in b.assigns():
                fs = proj_fields(st["lhs"])
                if fs and adt_field_pred(fs[-1], b, st):
                    yield b, blk, st

    def aggregates(self, adt_name):
        for b in self.bodies.values():
            for blk, i, st in b.assigns():
                rv = st["rv"]
                if rv["k"] == "agg" and rv.get("agg") == "adt" and strip_generics(rv["adt"]) == adt_name:
                    yield b, blk, st

    def has_impl(self, trait, self_pat):
        return [im for im in self.impls if im["trait"] == trait and re.search(self_pat, im["self"])]

    # call graph over local bodies
    def callgraph(self):
        if not hasattr(self, "_cg"):
            cg = defaultdict(set)
            for n, b in self.bodies.items():
                for c in b.calls():
                    cg[n].add(c.name)
                    if c.defn and c.defn != c.name:
                        cg[n].add(c.defn)
                # closures / coroutines created here
                for blk, i, st in b.assigns():
                    rv = st["rv"]
                    if rv["k"] == "agg" and rv.get("agg") in ("closure", "coroutine", "coroutine_closure"):
                        cg[n].add(strip_generics(rv["def"]))
                # fn items referenced as values
                for blk in b.blocks:
                    t = blk["term"]
                    if t["k"] == "call":
                        for a in t["args"]:
                            c = op_const(a)
                            if c and "fn" in c:
                                cg[n].add(strip_generics(c["fn"]))
            # async fn -> its coroutine body
            for n in list(self.bodies):
                if n.endswith("::{closure#0}"):
                    cg[n[: -len("::{closure#0}")]].add(n)
            # `x.try_into()` / `x.into()` go through core's blanket impls (`U: TryFrom<T>` => `T: TryInto<U>`), whose bodies are not ours: resolve
            # them by the type arguments of the call to the crate's own `impl TryFrom<T> for U` / `impl From<T> for U`
            conv = {}
            for n in self.bodies:
                m_ = re.match(r"^(?:bin:)?<(.+) as core::convert::(TryFrom|From)<(.+)>>::(try_from|from)$", n) or None
                if m_:
                    conv.setdefault((m_.group(2), _norm_ty(m_.group(3)), _norm_ty(m_.group(1))), set()).add(n)
                    continue
                m_ = re.match(r"^(?:bin:)?.*<impl core::convert::(TryFrom|From)<(.+)> for (.+)>::(try_from|from)$", n)
                if m_:
                    conv.setdefault((m_.group(1), _norm_ty(m_.group(2)), _norm_ty(m_.group(3))), set()).add(n)
            if conv:
                for n, b in self.bodies.items():
                    for c in b.calls("re:^<T as core::convert::(TryInto|Into)<U>>::(try_into|into)$"):
                        if len(c.targs) >= 2:
                            kind = "TryFrom" if c.name.endswith("try_into") else "From"
                            for tgt in conv.get((kind, _norm_ty(c.targs[0]), _norm_ty(c.targs[1])), ()):
                                cg[n].add(tgt)
            self._cg = cg
        return self._cg

    def closure_parents(self):
        """closure / coroutine body name -> (parent body, operands captured, in upvar order)"""
        if not hasattr(self, "_cp"):
            cp = {}
            for n, b in self.bodies.items():
                for blk, i, st in b.assigns():
                    rv = st["rv"]
                    if rv["k"] == "agg" and rv.get("agg") in ("closure", "coroutine", "coroutine_closure"):
                        name = strip_generics(rv["def"])
                        if n.startswith("bin:"):
                            name = "bin:" + name
                        cp[name] = (b, rv.get("ops", []))
            self._cp = cp
        return self._cp

    def deep_fields(self, body, op, depth=0, taint=True):
        """field names an operand derives from, following captured variables of closures / async blocks into the body that created them"""
        out = set()
        for o in origins(body, op, taint=taint):
            if o.kind in ("place", "param"):
                out.update(p_[1:] for p_ in o.proj if p_.startswith(".") and not p_[1:].isdigit())
                if o.what == 1 and o.proj and depth < 4:
                    par = self.closure_parents().get(body.name)
                    if par is not None:
                        # upvar index: first numeric field projection
                        idx = next((int(p_[1:]) for p_ in o.proj if p_.startswith(".") and p_[1:].isdigit()), None)
                        if idx is not None and idx < len(par[1]):
                            out |= self.deep_fields(par[0], par[1][idx], depth + 1, taint)
        return out

    def callgraph_nodes(self):
        cg = self.callgraph()
        nodes = set(cg)
        for v in cg.values():
            nodes |= v
        return nodes

    def reachable_fns(self, roots, stop=()):
        cg = self.callgraph()
        seen = set()
        dq = deque(roots)
        while dq:
            n = dq.popleft()
            if n in seen or n in stop:
                continue
            seen.add(n)
            for m in cg.get(n, ()):
                if m not in seen:
                    dq.append(m)
                    if ("bin:" + m) in self.bodies:
                        dq.append("bin:" + m)
        return seen

#!/bin/bash
# Build the fact extractor and warm the nightly dependency check of /repo
# (everything offline; nothing under /tmp is needed afterwards).
set -e
cd "$(dirname "$0")"
export CARGO_NET_OFFLINE=true
(cd engine/driver && cargo build --release --offline)
python3 - <<'PY'
import sys
sys.path.insert(0, "engine")
import runner
paths, info = runner.extract_facts()
print("facts:", paths, info)
PY

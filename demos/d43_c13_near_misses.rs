//! D43 (C13): near misses of the pooler's SET/SHOW commands that were executed as commands.
//!
//! `'?([0-9]+)'?` accepts a value with one quote only (`SET SHARD TO '1`, `SET SHARDING KEY TO 5'`,
//! `SET PRIMARY READS TO 'on`), and `(?i)` folds case the Unicode way, so `ſET ſHARD TO 1` (U+017F LONG S)
//! and `SET SHARDING \u{212A}EY TO 5` (KELVIN SIGN) match too. None of these is a documented command, and
//! PostgreSQL would reject every one of them; pgcat answered them itself and changed the routing state.
//!
//!   cargo test --offline --test d43_c13_near_misses

use bytes::{BufMut, BytesMut};
use pgcat::query_router::QueryRouter;

fn simple_query(sql: &str) -> BytesMut {
    let mut m = BytesMut::new();
    m.put_u8(b'Q');
    m.put_i32(4 + sql.len() as i32 + 1);
    m.put_slice(sql.as_bytes());
    m.put_u8(0);
    m
}

#[test]
fn near_misses_are_not_commands() {
    QueryRouter::setup();
    let mut failures = vec![];
    for sql in [
        "SET SHARD TO '1",
        "SET SHARD TO 1'",
        "SET SHARDING KEY TO 5'",
        "SET SHARDING KEY TO '5",
        "SET PRIMARY READS TO 'on",
        "SET PRIMARY READS TO off'",
        "\u{17F}ET \u{17F}HARD TO 1",
        "SHOW \u{17F}HARD",
        "SET SHARDING \u{212A}EY TO 5",
    ] {
        let mut qr = QueryRouter::new();
        if let Some((command, value)) = qr.try_execute_command(&simple_query(sql)) {
            failures.push(format!("{:?} was executed as {:?} ({:?})", sql, command, value));
        }
    }
    // the documented spellings still are
    for sql in [
        "SET SHARD TO '1'",
        "set shard to 1;",
        "SET SHARD TO 'any'",
        "SET SHARDING KEY TO '5'",
        "SET SHARDING KEY TO 5",
        "SET PRIMARY READS TO 'on'",
        "set primary reads to off ;",
        "SET SERVER ROLE TO 'primary'",
        "SHOW SHARD",
        "show server role;",
        "SHOW PRIMARY READS",
    ] {
        let mut qr = QueryRouter::new();
        if qr.try_execute_command(&simple_query(sql)).is_none() {
            failures.push(format!("{:?} is a documented command and was not recognised", sql));
        }
    }
    assert!(failures.is_empty(), "C13:\n{}", failures.join("\n"));
}

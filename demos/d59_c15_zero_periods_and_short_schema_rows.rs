//! D59 / D60 (C15): three more configurations that are accepted and then panic.
//!
//!   * `general.autoreload = 0`        - main builds `tokio::time::interval(0 ms)` at startup: panic
//!                                       ("`period` must be non-zero"), the pooler does not start;
//!   * `general.shutdown_timeout = 0`  - the SIGINT arm builds the same interval in its timer task: the task
//!                                       panics, nothing ever forces the exit, graceful shutdown waits for ever
//!                                       for a client that does not leave;
//!   * an intercept rule whose `schema` has a row with fewer than two fields (`[["version"]]` instead of
//!     `[["version", "text"]]`) - `Intercept::run` indexes `row[1]`: the first client whose query matches the
//!     rule panics its task and is disconnected, every time.
//!
//!   cargo test --offline --test d59_c15_zero_periods_and_short_schema_rows
use std::collections::BTreeMap;

use pgcat::config::{Config, Intercept, Plugins, Pool, Query, Shard, User};

fn base() -> Config {
    let mut c = Config::default();
    let mut p = Pool::default();
    p.shards.clear();
    p.shards.insert("0".into(), Shard::default());
    p.users.clear();
    let mut u = User::default();
    u.password = Some("x".into());
    p.users.insert("0".into(), u);
    p.query_parser_enabled = true;
    c.pools.clear();
    c.pools.insert("db".into(), p);
    c
}

fn intercept(schema: Vec<Vec<&str>>) -> Plugins {
    let mut queries = BTreeMap::new();
    queries.insert(
        "0".to_string(),
        Query {
            query: "select version()".into(),
            schema: schema.into_iter().map(|r| r.into_iter().map(String::from).collect()).collect(),
            result: vec![vec!["14.5".into()]],
        },
    );
    Plugins {
        intercept: Some(Intercept { enabled: true, queries }),
        table_access: None,
        query_logger: None,
        prewarmer: None,
    }
}

#[test]
fn configurations_that_panic_later_are_rejected() {
    let mut accepted = vec![];
    assert!(base().validate().is_ok(), "base config must be valid");

    let mut c = base();
    c.general.autoreload = Some(0);
    if c.validate().is_ok() {
        accepted.push("general.autoreload = 0");
    }

    let mut c = base();
    c.general.shutdown_timeout = 0;
    if c.validate().is_ok() {
        accepted.push("general.shutdown_timeout = 0");
    }

    let mut c = base();
    c.pools.get_mut("db").unwrap().plugins = Some(intercept(vec![vec!["version"]]));
    if c.validate().is_ok() {
        accepted.push("pool intercept rule with a one-field schema row");
    }

    let mut c = base();
    c.plugins = Some(intercept(vec![vec!["version", "text"], vec![]]));
    if c.validate().is_ok() {
        accepted.push("general intercept rule with an empty schema row");
    }

    // still fine
    let mut c = base();
    c.general.autoreload = Some(15000);
    c.general.shutdown_timeout = 1000;
    c.plugins = Some(intercept(vec![vec!["version", "text"]]));
    assert!(c.validate().is_ok(), "well-formed values must be accepted");

    assert!(accepted.is_empty(), "accepted although it panics when used: {:?}", accepted);
}

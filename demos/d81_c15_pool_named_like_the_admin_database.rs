// Demonstration for defect D81 (C15): copy to /repo/tests/ and run
//   cargo test --offline --test d81_c15_pool_named_like_the_admin_database
// Client::startup takes the database names `pgcat` and `pgbouncer` for the admin console before it
// looks at the pools. Before the `fix:` commit a pool of that name is accepted and built - and can
// never be reached: its user is held against the admin credentials, none of its statements
// reaches the pool's servers. No PostgreSQL server is needed (validate_config = false).
use bytes::{BufMut, BytesMut};
use std::collections::HashMap;
use std::sync::Arc;
use tokio::io::{AsyncReadExt, AsyncWriteExt};

fn config_toml(pool: &str) -> String {
    format!(
        r#"
[general]
host = "127.0.0.1"
port = 16433
admin_username = "admin"
admin_password = "admin_password"
validate_config = false

[pools.{pool}.users.0]
username = "app"
password = "app_password"
pool_size = 2

[pools.{pool}.shards.0]
servers = [["127.0.0.1", 5432, "primary"]]
database = "postgres"
"#
    )
}

async fn accepted(pool: &str) -> bool {
    let path = std::env::temp_dir().join(format!("d81_pgcat_{}_{}.toml", pool, std::process::id()));
    std::fs::write(&path, config_toml(pool)).unwrap();
    let r = pgcat::config::parse(path.to_str().unwrap()).await;
    let _ = std::fs::remove_file(&path);
    r.is_ok()
}

fn startup_packet(user: &str, database: &str) -> BytesMut {
    let mut body = BytesMut::new();
    for (k, v) in [("user", user), ("database", database)] {
        body.put_slice(k.as_bytes());
        body.put_u8(0);
        body.put_slice(v.as_bytes());
        body.put_u8(0);
    }
    body.put_u8(0);
    body
}

#[tokio::test(flavor = "multi_thread", worker_threads = 2)]
async fn a_pool_named_like_the_admin_database_is_rejected() {
    assert!(accepted("db").await, "an ordinary pool name must be accepted");

    let mut names = vec![];
    for name in ["pgbouncer", "pgcat"] {
        if accepted(name).await {
            names.push(name);
        }
    }
    if names.is_empty() {
        return;
    }

    // the configuration in force is the last one accepted: a pool named `pgcat` with user `app`
    let map: pgcat::pool::ClientServerMap = Arc::new(parking_lot::Mutex::new(HashMap::new()));
    pgcat::pool::ConnectionPool::from_config(map.clone()).await.expect("pools are built");
    assert!(pgcat::pool::get_pool("pgcat", "app").is_some(), "the pool exists");

    let (mut client, server_side) = tokio::io::duplex(1 << 16);
    let (read, write) = tokio::io::split(server_side);
    let (_tx, rx) = tokio::sync::broadcast::channel::<()>(1);
    let task = tokio::spawn(async move {
        pgcat::client::Client::startup(read, write, "127.0.0.1:5000".parse().unwrap(), startup_packet("app", "pgcat"), map, rx, false)
            .await
            .map(|_| ())
    });

    // MD5 challenge, answered with the pool user's own password
    let mut head = [0u8; 13];
    client.read_exact(&mut head).await.unwrap();
    assert_eq!(head[0], b'R');
    let answer = pgcat::messages::md5_hash_password("app", "app_password", &head[9..13]);
    let mut msg = BytesMut::new();
    msg.put_u8(b'p');
    msg.put_i32(4 + answer.len() as i32);
    msg.put_slice(&answer);
    client.write_all(&msg).await.unwrap();

    let mut code = [0u8; 1];
    client.read_exact(&mut code).await.unwrap();
    let outcome = task.await.unwrap();
    panic!(
        "accepted although they cannot be addressed: pools named {:?}; user `app` of pool `pgcat` logs in with its own password: first reply {:?}, startup result {:?}",
        names, code[0] as char, outcome.err()
    );
}

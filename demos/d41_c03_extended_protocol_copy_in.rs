//! D41 (C03, known finding, not repaired): COPY .. FROM STDIN through the extended protocol hangs.
//!
//! libpq (PQsendQueryParams / PQexecParams with a COPY statement) sends Parse, Bind, Execute, Sync, then the
//! CopyData, then CopyDone followed by a Sync. In copy-in mode the server ignores the first Sync; after
//! CopyDone it answers CommandComplete and sends ReadyForQuery only in answer to the second Sync. pgcat's
//! CopyDone arm forwards CopyDone and waits for ReadyForQuery before it reads another client message:
//! the Sync that would produce it is never read. Both sides wait for ever (or until statement_timeout).
//!
//!   cargo test --offline --test d41_c03_extended_protocol_copy_in
//! Expected on the current tree: FAILS (that is the finding).

use bytes::{Buf, BufMut, BytesMut};
use parking_lot::Mutex;
use std::collections::HashMap;
use std::io::Write;
use std::sync::Arc;
use std::time::Duration;
use tokio::io::{AsyncReadExt, AsyncWriteExt};
use tokio::net::{TcpListener, TcpStream};

// ---------------------------------------------------------------------------
// wire helpers
// ---------------------------------------------------------------------------

fn cstr(buf: &mut BytesMut, s: &str) {
    buf.put_slice(s.as_bytes());
    buf.put_u8(0);
}

fn msg(code: u8, body: &[u8]) -> BytesMut {
    let mut m = BytesMut::new();
    m.put_u8(code);
    m.put_i32(body.len() as i32 + 4);
    m.put_slice(body);
    m
}

fn read_cstr(buf: &mut &[u8]) -> String {
    let end = buf.iter().position(|b| *b == 0).expect("nul terminator");
    let s = String::from_utf8_lossy(&buf[..end]).to_string();
    buf.advance(end + 1);
    s
}

async fn read_msg(stream: &mut TcpStream) -> Option<(u8, Vec<u8>)> {
    let code = stream.read_u8().await.ok()?;
    let len = stream.read_i32().await.ok()?;
    let mut body = vec![0u8; len as usize - 4];
    stream.read_exact(&mut body).await.ok()?;
    Some((code, body))
}

// ---------------------------------------------------------------------------
// fake PostgreSQL backend: knows simple queries made of COPY .. FROM STDIN statements
// ---------------------------------------------------------------------------

#[derive(Default)]
struct BackendLog {
    trace: Vec<String>,
    connections: usize,
}

async fn backend_connection(mut stream: TcpStream, conn_id: usize, log: Arc<Mutex<BackendLog>>) {
    loop {
        let len = match stream.read_i32().await {
            Ok(len) => len,
            Err(_) => return,
        };
        let mut body = vec![0u8; len as usize - 4];
        if stream.read_exact(&mut body).await.is_err() {
            return;
        }
        match (&body[..4]).get_i32() {
            80877103 => {
                let _ = stream.write_all(b"N").await;
                continue;
            }
            80877102 => return,
            _ => break,
        }
    }
    let mut out = BytesMut::new();
    out.put(msg(b'R', &0i32.to_be_bytes()));
    for (k, v) in [
        ("server_version", "14.5"),
        ("server_encoding", "UTF8"),
        ("client_encoding", "UTF8"),
        ("DateStyle", "ISO, MDY"),
        ("TimeZone", "Etc/UTC"),
        ("standard_conforming_strings", "on"),
        ("application_name", "pgcat"),
        ("integer_datetimes", "on"),
    ] {
        let mut b = BytesMut::new();
        cstr(&mut b, k);
        cstr(&mut b, v);
        out.put(msg(b'S', &b));
    }
    let mut k = BytesMut::new();
    k.put_i32(4242 + conn_id as i32);
    k.put_i32(99);
    out.put(msg(b'K', &k));
    out.put(msg(b'Z', b"I"));
    if stream.write_all(&out).await.is_err() {
        return;
    }
    log.lock().connections += 1;

    // COPY statements of the current simple query that are still to run; Some(table) while one is open
    let mut pending: Vec<String> = vec![];
    let mut open: Option<String> = None;
    let mut rows = 0;
    let mut ext_query = String::new();
    let mut ext_copy = false;

    while let Some((code, body)) = read_msg(&mut stream).await {
        let mut b: &[u8] = &body;
        let mut out = BytesMut::new();
        let note = |s: String| log.lock().trace.push(format!("[backend #{}] {}", conn_id, s));
        let copy_in = |out: &mut BytesMut| {
            let mut g = BytesMut::new();
            g.put_u8(0);
            g.put_i16(0);
            out.put(msg(b'G', &g));
        };
        match code {
            b'X' => {
                note("Terminate".to_string());
                return;
            }
            b'Q' => {
                let query = read_cstr(&mut b);
                note(format!("Query {:?}", query));
                pending = query
                    .split(';')
                    .map(|s| s.trim().to_string())
                    .filter(|s| s.to_uppercase().starts_with("COPY"))
                    .collect();
                pending.reverse();
                if let Some(stmt) = pending.pop() {
                    open = Some(stmt);
                    rows = 0;
                    copy_in(&mut out);
                } else {
                    let mut t = BytesMut::new();
                    cstr(&mut t, if query.to_uppercase().starts_with("SET") { "SET" } else { "SELECT 0" });
                    out.put(msg(b'C', &t));
                    out.put(msg(b'Z', b"I"));
                }
            }
            // outside COPY mode PostgreSQL drops CopyData / CopyDone / CopyFail and says nothing
            b'd' | b'c' | b'f' if open.is_none() => {
                note(format!("'{}' outside COPY: ignored, no reply", code as char));
            }
            b'd' => {
                rows += 1;
                note(format!("CopyData for {:?}", open.as_ref().unwrap()));
            }
            b'c' | b'f' => {
                note(format!("CopyDone for {:?} ({} rows)", open.take().unwrap(), rows));
                let mut t = BytesMut::new();
                cstr(&mut t, &format!("COPY {}", rows));
                out.put(msg(b'C', &t));
                if ext_copy {
                    // started by Execute: ReadyForQuery comes with the next Sync
                    ext_copy = false;
                } else if let Some(stmt) = pending.pop() {
                    open = Some(stmt);
                    rows = 0;
                    copy_in(&mut out);
                } else {
                    out.put(msg(b'Z', b"I"));
                }
            }
            // extended protocol: Parse / Bind are acknowledged, Execute of a COPY opens it, Sync ends the batch
            b'P' => {
                let _name = read_cstr(&mut b);
                let query = read_cstr(&mut b);
                note(format!("Parse {:?}", query));
                ext_query = query;
                out.put(msg(b'1', b""));
            }
            b'B' => {
                note("Bind".to_string());
                out.put(msg(b'2', b""));
            }
            b'E' => {
                note("Execute".to_string());
                if ext_query.to_uppercase().starts_with("COPY") {
                    open = Some(ext_query.clone());
                    rows = 0;
                    ext_copy = true;
                    copy_in(&mut out);
                }
            }
            // during COPY IN the server ignores Sync and Flush
            b'S' if open.is_some() => note("Sync during COPY: ignored".to_string()),
            b'S' => {
                note("Sync".to_string());
                out.put(msg(b'Z', b"I"));
            }
            other => note(format!("unhandled message '{}'", other as char)),
        }
        if !out.is_empty() && stream.write_all(&out).await.is_err() {
            return;
        }
    }
    log.lock().trace.push(format!("[backend #{}] connection closed by pgcat", conn_id));
}

async fn start_fake_backend(log: Arc<Mutex<BackendLog>>) -> u16 {
    let listener = TcpListener::bind("127.0.0.1:0").await.unwrap();
    let port = listener.local_addr().unwrap().port();
    tokio::spawn(async move {
        let mut next_id = 0usize;
        loop {
            let (stream, _) = match listener.accept().await {
                Ok(s) => s,
                Err(_) => return,
            };
            let log = log.clone();
            let id = next_id;
            next_id += 1;
            tokio::spawn(backend_connection(stream, id, log));
        }
    });
    port
}

// ---------------------------------------------------------------------------
// pgcat in-process
// ---------------------------------------------------------------------------

async fn start_pgcat(backend_port: u16, cache_size: usize) -> u16 {
    let toml = format!(
        r#"
[general]
host = "127.0.0.1"
port = 6432
admin_username = "admin"
admin_password = "admin"
validate_config = false
connect_timeout = 2000
idle_timeout = 600000
healthcheck_timeout = 2000
healthcheck_delay = 600000
ban_time = 1
worker_threads = 2

[pools.db]
pool_mode = "transaction"
prepared_statements_cache_size = {}
query_parser_enabled = false

[pools.db.users.0]
username = "u"
password = "p"
auth_type = "trust"
pool_size = 1
min_pool_size = 0

[pools.db.shards.0]
servers = [["127.0.0.1", {}, "primary"]]
database = "db"
"#,
        cache_size, backend_port
    );

    let path = std::env::temp_dir().join(format!("c08_pgcat_{}.toml", std::process::id()));
    std::fs::File::create(&path)
        .unwrap()
        .write_all(toml.as_bytes())
        .unwrap();

    pgcat::config::parse(path.to_str().unwrap())
        .await
        .expect("config parses");

    let client_server_map: pgcat::pool::ClientServerMap = Arc::new(Mutex::new(HashMap::new()));
    pgcat::pool::ConnectionPool::from_config(client_server_map.clone())
        .await
        .expect("pool builds");

    let listener = TcpListener::bind("127.0.0.1:0").await.unwrap();
    let port = listener.local_addr().unwrap().port();

    let (shutdown_tx, _) = tokio::sync::broadcast::channel::<()>(1);
    let (drain_tx, mut drain_rx) = tokio::sync::mpsc::channel::<i32>(2048);
    tokio::spawn(async move { while drain_rx.recv().await.is_some() {} });

    tokio::spawn(async move {
        // Keep the sender alive for as long as the listener lives.
        let shutdown_tx = shutdown_tx;
        loop {
            let (stream, _) = match listener.accept().await {
                Ok(s) => s,
                Err(_) => return,
            };
            let map = client_server_map.clone();
            let shutdown_rx = shutdown_tx.subscribe();
            let drain_tx = drain_tx.clone();
            tokio::spawn(async move {
                let _ = pgcat::client::client_entrypoint(
                    stream,
                    map,
                    shutdown_rx,
                    drain_tx,
                    false,
                    None,
                    false,
                )
                .await;
            });
        }
    });

    port
}

// ---------------------------------------------------------------------------
// frontend (the application) helpers
// ---------------------------------------------------------------------------

fn fe_parse(name: &str, query: &str) -> BytesMut {
    let mut b = BytesMut::new();
    cstr(&mut b, name);
    cstr(&mut b, query);
    b.put_i16(0);
    msg(b'P', &b)
}

fn fe_bind(portal: &str, statement: &str) -> BytesMut {
    let mut b = BytesMut::new();
    cstr(&mut b, portal);
    cstr(&mut b, statement);
    b.put_i16(0); // parameter format codes
    b.put_i16(0); // parameter values
    b.put_i16(0); // result format codes
    msg(b'B', &b)
}

fn fe_execute(portal: &str) -> BytesMut {
    let mut b = BytesMut::new();
    cstr(&mut b, portal);
    b.put_i32(0);
    msg(b'E', &b)
}

fn fe_sync() -> BytesMut {
    msg(b'S', b"")
}

/// What the application sees in answer to one batch (up to ReadyForQuery).
#[derive(Debug, Default)]
struct Reply {
    codes: String,
    ran: Vec<String>,
    errors: Vec<String>,
}

struct App {
    stream: TcpStream,
}

impl App {
    async fn connect(port: u16) -> App {
        let mut stream = TcpStream::connect(("127.0.0.1", port)).await.unwrap();
        let mut body = BytesMut::new();
        body.put_i32(196608);
        cstr(&mut body, "user");
        cstr(&mut body, "u");
        cstr(&mut body, "database");
        cstr(&mut body, "db");
        body.put_u8(0);
        let mut startup = BytesMut::new();
        startup.put_i32(body.len() as i32 + 4);
        startup.put(body);
        stream.write_all(&startup).await.unwrap();

        let mut app = App { stream };
        let reply = app.read_reply().await;
        assert!(
            reply.errors.is_empty(),
            "could not log in through pgcat: {:?}",
            reply
        );
        app
    }

    async fn read_reply(&mut self) -> Reply {
        let mut reply = Reply::default();
        loop {
            let (code, body) = tokio::time::timeout(Duration::from_secs(10), read_msg(&mut self.stream))
                .await
                .expect("timed out waiting for pgcat")
                .expect("pgcat closed the connection");
            reply.codes.push(code as char);
            match code {
                b'C' => {
                    let mut b: &[u8] = &body;
                    let tag = read_cstr(&mut b);
                    if let Some(q) = tag.strip_prefix("RAN ") {
                        reply.ran.push(q.to_string());
                    }
                }
                b'E' => {
                    let text = String::from_utf8_lossy(&body).replace('\0', " ");
                    reply.errors.push(text);
                }
                b'Z' => return reply,
                _ => (),
            }
        }
    }

    async fn send_simple(&mut self, sql: &str) {
        let mut b = BytesMut::new();
        cstr(&mut b, sql);
        self.stream.write_all(&msg(b'Q', &b)).await.unwrap();
    }

    /// message codes received until ReadyForQuery, or until nothing arrives for a second
    async fn codes_until_ready(&mut self) -> (String, Vec<String>) {
        let mut codes = String::new();
        let mut rows = vec![];
        loop {
            match tokio::time::timeout(Duration::from_secs(1), read_msg(&mut self.stream)).await {
                Ok(Some((code, body))) => {
                    codes.push(code as char);
                    if code == b'D' {
                        rows.push(String::from_utf8_lossy(&body[6..]).to_string());
                    }
                    if code == b'Z' {
                        return (codes, rows);
                    }
                }
                _ => return (codes, rows),
            }
        }
    }

    async fn batch(&mut self, messages: &[BytesMut]) -> Reply {
        let mut all = BytesMut::new();
        for m in messages {
            all.put_slice(m);
        }
        self.stream.write_all(&all).await.unwrap();
        self.read_reply().await
    }
}

// ---------------------------------------------------------------------------
// the scenario
// ---------------------------------------------------------------------------

#[tokio::test(flavor = "multi_thread", worker_threads = 2)]
async fn copy_in_through_the_extended_protocol_completes() {
    let log = Arc::new(Mutex::new(BackendLog::default()));
    let backend_port = start_fake_backend(log.clone()).await;
    let pgcat_port = start_pgcat(backend_port, 0).await;

    let mut a = App::connect(pgcat_port).await;
    let mut batch = BytesMut::new();
    for m in [fe_parse("", "COPY t FROM STDIN"), fe_bind("", ""), fe_execute(""), fe_sync()] {
        batch.put_slice(&m);
    }
    a.stream.write_all(&batch).await.unwrap();
    let (codes, _) = a.codes_until_ready().await;
    assert_eq!(codes, "12G", "ParseComplete, BindComplete, CopyInResponse expected, got {:?}", codes);

    // what libpq's PQputCopyData / PQputCopyEnd send
    a.stream.write_all(&msg(b'd', b"1\n")).await.unwrap();
    a.stream.write_all(&msg(b'c', b"")).await.unwrap();
    a.stream.write_all(&fe_sync()).await.unwrap();

    let mut codes = String::new();
    let deadline = tokio::time::Instant::now() + Duration::from_secs(4);
    while tokio::time::Instant::now() < deadline && !codes.ends_with('Z') {
        let (c, _) = a.codes_until_ready().await;
        codes.push_str(&c);
    }
    let trace = log.lock().trace.join("\n");
    assert_eq!(
        codes, "CZ",
        "C03: after CopyDone and Sync the client must get CommandComplete and ReadyForQuery; within 4 s it got {:?}\n\nbackend trace:\n{}",
        codes, trace
    );
}

// Demonstration for defect D80 (C15): copy to /repo/tests/ and run
//   cargo test --offline --test d80_c15_cache_expiration_beyond_the_limit
// Before the `fix:` commit a `db_activity_ttl` / `table_mutation_cache_ms_ttl` beyond 1000 years is
// accepted by validate(); mini-moka's cache builder asserts that bound, the cache lives in a
// process-wide OnceLock built by the first routed statement: that statement panics, the cell stays
// empty, and every later statement of every client panics again.
use pgcat::config::{Config, Pool, Shard, User};
use pgcat::messages::simple_query;
use pgcat::pool::PoolSettings;
use pgcat::query_router::QueryRouter;
use std::panic::{catch_unwind, AssertUnwindSafe};

fn base() -> Config {
    let mut c = Config::default();
    let mut p = Pool::default();
    p.shards.clear();
    p.shards.insert("0".into(), Shard::default());
    p.users.clear();
    let mut u = User::default();
    u.password = Some("x".into());
    p.users.insert("0".into(), u);
    p.query_parser_enabled = true;
    p.query_parser_read_write_splitting = true;
    p.db_activity_based_routing = true;
    c.pools.clear();
    c.pools.insert("db".into(), p);
    c
}

#[test]
fn expirations_the_cache_builder_refuses_are_rejected() {
    assert!(base().validate().is_ok(), "base config must be valid");

    // the largest values the builder takes are still accepted
    let mut c = base();
    c.pools.get_mut("db").unwrap().db_activity_ttl = 1000 * 365 * 24 * 3600;
    c.pools.get_mut("db").unwrap().table_mutation_cache_ms_ttl = 1000 * 365 * 24 * 3600 * 1000;
    assert!(c.validate().is_ok(), "1000 years is what the cache accepts");

    let mut accepted = vec![];
    let mut c = base();
    c.pools.get_mut("db").unwrap().db_activity_ttl = 40_000_000_000;
    if c.validate().is_ok() {
        accepted.push("db_activity_ttl = 40000000000 (s)");
    }
    let mut c = base();
    c.pools.get_mut("db").unwrap().table_mutation_cache_ms_ttl = 40_000_000_000_000;
    if c.validate().is_ok() {
        accepted.push("table_mutation_cache_ms_ttl = 40000000000000 (ms)");
    }

    if !accepted.is_empty() {
        // what the accepted value does to the statements of the pool
        QueryRouter::setup();
        let mut qr = QueryRouter::new();
        let mut s = PoolSettings::default();
        s.query_parser_enabled = true;
        s.query_parser_read_write_splitting = true;
        s.db_activity_based_routing = true;
        s.db_activity_ttl = 40_000_000_000;
        qr.update_pool_settings(&s);
        let ast = qr.parse(&simple_query("SELECT 1")).unwrap();
        let first = catch_unwind(AssertUnwindSafe(|| {
            let _ = qr.infer(&ast);
        }))
        .is_err();
        let second = catch_unwind(AssertUnwindSafe(|| {
            let _ = qr.infer(&ast);
        }))
        .is_err();
        panic!(
            "accepted although unservable: {:?}; first routed statement panics: {}, the next one too: {}",
            accepted, first, second
        );
    }
}

// Demonstration for defect D8 (C19): copy to /repo/tests/ and run
//   cargo test --offline --test d8_c19_table_names
// Before the `fix:` commit every spelling below except the plain lower-case one is allowed.
use pgcat::config::{Plugins, TableAccess};
use pgcat::messages::simple_query;
use pgcat::plugins::PluginOutput;
use pgcat::pool::PoolSettings;
use pgcat::query_router::QueryRouter;

#[tokio::test]
async fn spellings_of_a_denied_table() {
    QueryRouter::setup();
    let plugins = Plugins {
        table_access: Some(TableAccess { enabled: true, tables: vec!["users".to_string()] }),
        intercept: None,
        query_logger: None,
        prewarmer: None,
    };
    let ps = PoolSettings { query_parser_enabled: true, plugins: Some(plugins), ..Default::default() };
    let mut qr = QueryRouter::new();
    qr.update_pool_settings(&ps);
    let mut allowed = vec![];
    for q in [
        "SELECT * FROM users",
        "SELECT * FROM USERS",
        "SELECT * FROM Users",
        "SELECT * FROM \"users\"",
        "SELECT * FROM public.Users",
        "SELECT * FROM public.\"users\"",
        "DELETE FROM USERS",
        "SELECT 1 FROM t JOIN UsErS u ON true",
    ] {
        let ast = qr.parse(&simple_query(q)).unwrap();
        if !matches!(qr.execute_plugins(&ast).await, Ok(PluginOutput::Deny(_))) {
            allowed.push(q);
        }
    }
    // a different table: quoted mixed case is NOT the table `users`
    let ast = qr.parse(&simple_query("SELECT * FROM \"Users\"")).unwrap();
    assert_eq!(qr.execute_plugins(&ast).await, Ok(PluginOutput::Allow));
    assert!(allowed.is_empty(), "allowed although they resolve to table users: {:#?}", allowed);
}

//! D74 (C17): while a SIGHUP reload is building pools, pgcat hears no signal and accepts nobody.
//!
//! The SIGHUP arm of the accept loop awaits `reload_config(..)` inline. A reload that has to connect (a new or changed
//! pool with `min_pool_size >= 1` and `validate_config = true`) takes as long as the slowest server's startup - up to
//! connect_timeout per server. For that long the loop polls nothing: SIGTERM, which is to end the process at once, is
//! not heard; neither is SIGINT; no client is accepted.
//!
//! The real `pgcat` binary against a fake backend that answers the startup packet after 2.5 s once told to stall.
//!   cargo test --offline --test d74_c17_reload_blocks_the_accept_loop -- --nocapture

use std::io::Write as _;
use std::process::{Command, Stdio};
use std::sync::atomic::{AtomicBool, Ordering};
use std::sync::Arc;
use std::time::{Duration, Instant};

use bytes::{BufMut, BytesMut};
use tokio::io::{AsyncReadExt, AsyncWriteExt};
use tokio::net::{TcpListener, TcpStream};
use tokio::time::{sleep, timeout};

fn backend_msg(code: u8, body: &[u8]) -> BytesMut {
    let mut m = BytesMut::new();
    m.put_u8(code);
    m.put_i32(4 + body.len() as i32);
    m.put_slice(body);
    m
}

fn parameter_status(key: &str, value: &str) -> BytesMut {
    let mut body = Vec::new();
    body.extend_from_slice(key.as_bytes());
    body.push(0);
    body.extend_from_slice(value.as_bytes());
    body.push(0);
    backend_msg(b'S', &body)
}

async fn fake_backend_connection(mut s: TcpStream, stall: Arc<AtomicBool>) -> std::io::Result<()> {
    let len = s.read_i32().await?;
    let mut startup = vec![0u8; len as usize - 4];
    s.read_exact(&mut startup).await?;
    if stall.load(Ordering::SeqCst) {
        sleep(Duration::from_millis(2500)).await;
    }

    let mut hello = BytesMut::new();
    hello.put(backend_msg(b'R', &0i32.to_be_bytes()));
    hello.put(parameter_status("server_version", "14.5"));
    hello.put(parameter_status("client_encoding", "UTF8"));
    hello.put(parameter_status("DateStyle", "ISO, MDY"));
    hello.put(parameter_status("TimeZone", "Etc/UTC"));
    hello.put(parameter_status("standard_conforming_strings", "on"));
    hello.put(parameter_status("application_name", "pgcat"));
    let mut key = Vec::new();
    key.extend_from_slice(&4242i32.to_be_bytes());
    key.extend_from_slice(&777i32.to_be_bytes());
    hello.put(backend_msg(b'K', &key));
    hello.put(backend_msg(b'Z', b"I"));
    s.write_all(&hello).await?;

    let mut status = b'I';
    loop {
        let code = s.read_u8().await?;
        let len = s.read_i32().await?;
        let mut body = vec![0u8; len as usize - 4];
        s.read_exact(&mut body).await?;
        match code {
            b'Q' => {
                let sql = String::from_utf8_lossy(&body).to_uppercase();
                if sql.starts_with("BEGIN") {
                    status = b'T';
                } else if sql.starts_with("COMMIT") || sql.starts_with("ROLLBACK") {
                    status = b'I';
                }
                let mut reply = BytesMut::new();
                reply.put(backend_msg(b'C', b"SELECT 1\0"));
                reply.put(backend_msg(b'Z', &[status]));
                s.write_all(&reply).await?;
            }
            b'X' => return Ok(()),
            _ => (),
        }
    }
}

async fn fake_backend(stall: Arc<AtomicBool>) -> u16 {
    let listener = TcpListener::bind("127.0.0.1:0").await.unwrap();
    let port = listener.local_addr().unwrap().port();
    tokio::spawn(async move {
        loop {
            if let Ok((s, _)) = listener.accept().await {
                let stall = stall.clone();
                tokio::spawn(async move {
                    let _ = fake_backend_connection(s, stall).await;
                });
            }
        }
    });
    port
}

fn config(pgcat_port: u16, backend_port: u16, reload: bool) -> String {
    let mut c = format!(
        r#"
[general]
host = "127.0.0.1"
port = {pgcat_port}
admin_username = "admin"
admin_password = "admin"
validate_config = {reload}
shutdown_timeout = 1200
connect_timeout = 10000
worker_threads = 2
enable_prometheus_exporter = false

[pools.db]
pool_mode = "transaction"

[pools.db.users.0]
username = "app"
password = "app"
auth_type = "trust"
pool_size = 5

[pools.db.shards.0]
servers = [["127.0.0.1", {backend_port}, "primary"]]
database = "postgres"
"#
    );
    if reload {
        c.push_str(&format!(
            r#"
[pools.db2]
pool_mode = "transaction"

[pools.db2.users.0]
username = "app"
password = "app"
auth_type = "trust"
pool_size = 5
min_pool_size = 1

[pools.db2.shards.0]
servers = [["127.0.0.1", {backend_port}, "primary"]]
database = "postgres"
"#
        ));
    }
    c
}

async fn until_ready(s: &mut TcpStream) -> std::io::Result<Vec<char>> {
    let mut seen = Vec::new();
    loop {
        let code = s.read_u8().await?;
        let len = s.read_i32().await?;
        let mut body = vec![0u8; len as usize - 4];
        s.read_exact(&mut body).await?;
        seen.push(code as char);
        if code == b'Z' {
            return Ok(seen);
        }
    }
}

async fn connect(port: u16) -> TcpStream {
    let mut s = loop {
        match TcpStream::connect(("127.0.0.1", port)).await {
            Ok(s) => break s,
            Err(_) => sleep(Duration::from_millis(50)).await,
        }
    };
    let mut body = BytesMut::new();
    body.put_i32(196608);
    for kv in ["user", "app", "database", "db"] {
        body.put_slice(kv.as_bytes());
        body.put_u8(0);
    }
    body.put_u8(0);
    let mut startup = BytesMut::new();
    startup.put_i32(4 + body.len() as i32);
    startup.put(body);
    s.write_all(&startup).await.unwrap();
    timeout(Duration::from_secs(10), until_ready(&mut s))
        .await
        .expect("startup timed out")
        .expect("startup failed");
    s
}

async fn query(s: &mut TcpStream, sql: &str) -> Vec<char> {
    let mut m = BytesMut::new();
    m.put_u8(b'Q');
    m.put_i32(4 + sql.len() as i32 + 1);
    m.put_slice(sql.as_bytes());
    m.put_u8(0);
    s.write_all(&m).await.unwrap();
    timeout(Duration::from_secs(10), until_ready(s))
        .await
        .expect("query timed out")
        .expect("query failed")
}

fn signal(pid: u32, sig: &str) {
    let _ = Command::new("kill").arg(sig).arg(pid.to_string()).status();
}

#[tokio::test(flavor = "multi_thread", worker_threads = 4)]
async fn sigterm_is_heard_while_a_reload_is_building_pools() {
    let stall = Arc::new(AtomicBool::new(false));
    let backend_port = fake_backend(stall.clone()).await;
    let pgcat_port = {
        let l = std::net::TcpListener::bind("127.0.0.1:0").unwrap();
        l.local_addr().unwrap().port()
    };
    let path = std::env::temp_dir().join(format!("d74_pgcat_{}.toml", std::process::id()));
    std::fs::write(&path, config(pgcat_port, backend_port, false)).unwrap();

    let mut child = Command::new(env!("CARGO_BIN_EXE_pgcat"))
        .arg(path.to_str().unwrap())
        .env("RUST_LOG", "error")
        .stdout(Stdio::null())
        .stderr(Stdio::null())
        .spawn()
        .expect("pgcat binary");
    let pid = child.id();

    // pgcat is up and serves
    let mut a = connect(pgcat_port).await;
    assert_eq!(query(&mut a, "SELECT 1").await.last(), Some(&'Z'));

    // a reload that has to connect to a server that is slow to accept logins (2.5 s)
    stall.store(true, Ordering::SeqCst);
    let mut f = std::fs::File::create(&path).unwrap();
    f.write_all(config(pgcat_port, backend_port, true).as_bytes()).unwrap();
    drop(f);
    signal(pid, "-HUP");
    sleep(Duration::from_millis(300)).await;

    // the operator (or the service manager) ends the process
    let asked = Instant::now();
    signal(pid, "-TERM");
    let deadline = asked + Duration::from_secs(8);
    let exited_after = loop {
        if let Ok(Some(_)) = child.try_wait() {
            break Some(asked.elapsed());
        }
        if Instant::now() > deadline {
            break None;
        }
        sleep(Duration::from_millis(20)).await;
    };
    if exited_after.is_none() {
        let _ = child.kill();
        let _ = child.wait();
    }
    let _ = std::fs::remove_file(&path);
    println!("SIGTERM -> exit: {:?}", exited_after);
    assert!(
        matches!(exited_after, Some(d) if d < Duration::from_millis(1000)),
        "C17: SIGTERM is to end the process at once; sent 0.3 s into a reload that was connecting to a slow server it took {:?} (the reload's 2.5 s) - the accept loop was inside reload_config and heard nothing",
        exited_after
    );
}

// Demonstration for defect D27 (C10): copy to /repo/tests/ and run
//   cargo test --offline --test d27_c10_second_cancel
// A CancelRequest with the key issued to client X must result in a cancel for the server session X
// borrows - also the second time. The throw-away client object that serves a CancelRequest carries X's
// (process_id, secret_key), and `Drop for Client` removed that key from the cancel map whatever the
// object was: after the first cancel request X's entry was gone although X still held its server, and
// every further CancelRequest for the same running query was silently ignored.
use std::collections::HashMap;
use std::sync::Arc;

use bytes::{BufMut, BytesMut};
use parking_lot::Mutex;
use tokio::io::AsyncReadExt;
use tokio::net::TcpListener;

use pgcat::client::Client;
use pgcat::pool::ClientServerMap;

#[tokio::test]
async fn a_second_cancel_request_still_reaches_the_session() {
    // the "server": records CancelRequest packets (len 16, code 80877102, pid, key)
    let listener = TcpListener::bind("127.0.0.1:0").await.unwrap();
    let port = listener.local_addr().unwrap().port();
    let received = Arc::new(Mutex::new(Vec::<(i32, i32)>::new()));
    let log = received.clone();
    tokio::spawn(async move {
        loop {
            let (mut s, _) = match listener.accept().await {
                Ok(x) => x,
                Err(_) => return,
            };
            let log = log.clone();
            tokio::spawn(async move {
                let len = s.read_i32().await.unwrap_or(0);
                let code = s.read_i32().await.unwrap_or(0);
                if len == 16 && code == 80877102 {
                    let pid = s.read_i32().await.unwrap();
                    let key = s.read_i32().await.unwrap();
                    log.lock().push((pid, key));
                }
            });
        }
    });

    // client X (pid 7001, key 42) holds server session (pid 900, key 901): what Server::claim records
    let map: ClientServerMap = Arc::new(Mutex::new(HashMap::new()));
    map.lock().insert((7001, 42), (900, 901, "127.0.0.1".to_string(), port));

    for round in 1..=2 {
        let (_ours, theirs) = tokio::io::duplex(1024);
        let (read, write) = tokio::io::split(theirs);
        let mut rest = BytesMut::new();
        rest.put_i32(7001);
        rest.put_i32(42);
        let (_tx, shutdown) = tokio::sync::broadcast::channel::<()>(1);
        let mut cancel_client = Client::cancel(read, write, "127.0.0.1:5".parse().unwrap(), rest, map.clone(), shutdown)
            .await
            .unwrap();
        cancel_client.handle().await.unwrap();
        drop(cancel_client);
        tokio::time::sleep(std::time::Duration::from_millis(100)).await;

        assert_eq!(
            received.lock().len(),
            round,
            "cancel request #{} for a client that still holds its server was not delivered",
            round
        );
        assert_eq!(*received.lock().last().unwrap(), (900, 901));
        assert!(
            map.lock().contains_key(&(7001, 42)),
            "serving cancel request #{} removed the entry of the client that still holds its server",
            round
        );
    }
}

//! D82 (C06): two statements parsed in one batch - the Bind of the first is routed by the key positions of the second.
//!
//! With automatic_sharding_key, `QueryRouter::infer` records which parameters of the statement it has just looked
//! at are equated with the key; `infer_shard_from_bind` hashes the Bind's parameters at those positions. The Bind arm
//! of `Client::handle` looks the bound statement up again only when it was prepared in an earlier batch: "one parsed
//! in this batch has been looked at already". Looked at, yes - but not last: after `Parse s1 (id = $1 AND x = $2)`,
//! `Parse s2 (x = $1 AND id = $2)` the recorded position is s2's, and `Bind s1 [key, other]` is routed by `other`:
//! the statement runs on the shard of a value that is not its key.
//! (Reported by the round-9 seeding agent for C06, who checked it at the router level.)
//!
//!   cargo test --offline --test d82_c06_bind_routed_by_another_statements_positions

use std::collections::HashMap;
use std::sync::{Arc, Mutex as StdMutex};
use std::time::Duration;

use bytes::{BufMut, BytesMut};
use tokio::io::{AsyncReadExt, AsyncWriteExt, DuplexStream};
use tokio::net::{TcpListener, TcpStream};

type Log = Arc<StdMutex<Vec<String>>>;

// ---------------------------------------------------------------------------------------------
// Fake backend
// ---------------------------------------------------------------------------------------------

fn msg(code: u8, body: &[u8]) -> Vec<u8> {
    let mut m = Vec::with_capacity(body.len() + 5);
    m.push(code);
    m.extend_from_slice(&((body.len() as i32 + 4).to_be_bytes()));
    m.extend_from_slice(body);
    m
}

fn cstr(s: &str) -> Vec<u8> {
    let mut v = s.as_bytes().to_vec();
    v.push(0);
    v
}

fn read_cstr(buf: &[u8], pos: &mut usize) -> String {
    let start = *pos;
    while buf[*pos] != 0 {
        *pos += 1;
    }
    let s = String::from_utf8_lossy(&buf[start..*pos]).to_string();
    *pos += 1;
    s
}

async fn backend_connection(mut stream: TcpStream, log: Log) {
    // Startup packet.
    let len = match stream.read_i32().await {
        Ok(len) => len,
        Err(_) => return,
    };
    let mut startup = vec![0u8; len as usize - 4];
    if stream.read_exact(&mut startup).await.is_err() {
        return;
    }

    let mut out = Vec::new();
    out.extend(msg(b'R', &0i32.to_be_bytes()));
    for (k, v) in [
        ("server_version", "14.0"),
        ("server_encoding", "UTF8"),
        ("client_encoding", "UTF8"),
        ("DateStyle", "ISO, MDY"),
        ("TimeZone", "UTC"),
        ("standard_conforming_strings", "on"),
        ("application_name", "pgcat"),
    ] {
        let mut body = cstr(k);
        body.extend(cstr(v));
        out.extend(msg(b'S', &body));
    }
    let mut key = Vec::new();
    key.extend_from_slice(&4242i32.to_be_bytes());
    key.extend_from_slice(&4343i32.to_be_bytes());
    out.extend(msg(b'K', &key));
    out.extend(msg(b'Z', b"I"));
    if stream.write_all(&out).await.is_err() {
        return;
    }

    // Statements prepared on this connection: name -> query text.
    let mut statements: HashMap<String, String> = HashMap::new();

    loop {
        let code = match stream.read_u8().await {
            Ok(code) => code,
            Err(_) => return,
        };
        let len = match stream.read_i32().await {
            Ok(len) => len,
            Err(_) => return,
        };
        let mut body = vec![0u8; len as usize - 4];
        if stream.read_exact(&mut body).await.is_err() {
            return;
        }

        let mut out = Vec::new();
        match code {
            b'Q' => {
                let mut pos = 0;
                let query = read_cstr(&body, &mut pos);
                log.lock().unwrap().push(format!("Q:{}", query));
                let tag = if query.to_uppercase().starts_with("SET") {
                    "SET"
                } else {
                    "SELECT 0"
                };
                out.extend(msg(b'C', &cstr(tag)));
                out.extend(msg(b'Z', b"I"));
            }
            b'P' => {
                let mut pos = 0;
                let name = read_cstr(&body, &mut pos);
                let query = read_cstr(&body, &mut pos);
                log.lock().unwrap().push(format!("P:{}", query));
                statements.insert(name, query);
                out.extend(msg(b'1', &[]));
            }
            b'B' => {
                let mut pos = 0;
                let _portal = read_cstr(&body, &mut pos);
                let name = read_cstr(&body, &mut pos);
                let query = statements
                    .get(&name)
                    .cloned()
                    .unwrap_or_else(|| format!("<unknown statement {}>", name));
                // This is the statement that the following Execute runs on this server.
                log.lock().unwrap().push(format!("B:{}", query));
                out.extend(msg(b'2', &[]));
            }
            b'E' => {
                out.extend(msg(b'C', &cstr("INSERT 0 1")));
            }
            b'D' => {
                out.extend(msg(b'n', &[]));
            }
            b'C' => {
                out.extend(msg(b'3', &[]));
            }
            b'S' => {
                out.extend(msg(b'Z', b"I"));
            }
            b'H' => {}
            b'X' => return,
            _ => {}
        }

        if !out.is_empty() && stream.write_all(&out).await.is_err() {
            return;
        }
    }
}

async fn spawn_backend(log: Log) -> u16 {
    let listener = TcpListener::bind("127.0.0.1:0").await.unwrap();
    let port = listener.local_addr().unwrap().port();
    tokio::spawn(async move {
        loop {
            let (stream, _) = match listener.accept().await {
                Ok(conn) => conn,
                Err(_) => return,
            };
            tokio::spawn(backend_connection(stream, log.clone()));
        }
    });
    port
}

// ---------------------------------------------------------------------------------------------
// Frontend messages
// ---------------------------------------------------------------------------------------------

fn parse_msg(name: &str, query: &str) -> Vec<u8> {
    let mut body = cstr(name);
    body.extend(cstr(query));
    body.extend_from_slice(&0i16.to_be_bytes());
    msg(b'P', &body)
}

fn bind_msg(portal: &str, statement: &str, params: &[&str]) -> Vec<u8> {
    let mut body = cstr(portal);
    body.extend(cstr(statement));
    body.extend_from_slice(&0i16.to_be_bytes()); // parameter format codes: all text
    body.extend_from_slice(&(params.len() as i16).to_be_bytes());
    for p in params {
        body.extend_from_slice(&(p.len() as i32).to_be_bytes());
        body.extend_from_slice(p.as_bytes());
    }
    body.extend_from_slice(&0i16.to_be_bytes()); // result format codes
    msg(b'B', &body)
}

fn execute_msg(portal: &str) -> Vec<u8> {
    let mut body = cstr(portal);
    body.extend_from_slice(&0i32.to_be_bytes());
    msg(b'E', &body)
}

fn sync_msg() -> Vec<u8> {
    msg(b'S', &[])
}

async fn read_until_ready(client: &mut DuplexStream) -> String {
    let mut codes = String::new();
    loop {
        let code = tokio::time::timeout(Duration::from_secs(10), client.read_u8())
            .await
            .expect("the pooler did not answer in time")
            .expect("the pooler closed the connection");
        let len = client.read_i32().await.unwrap();
        let mut body = vec![0u8; len as usize - 4];
        client.read_exact(&mut body).await.unwrap();
        codes.push(code as char);
        if code == b'E' {
            panic!("the pooler answered with an error: {}", String::from_utf8_lossy(&body));
        }
        if code == b'Z' {
            return codes;
        }
    }
}

fn binds_of(log: &Log, needle: &str) -> usize {
    log.lock().unwrap().iter().filter(|entry| entry.starts_with("B:") && entry.contains(needle)).count()
}

// ---------------------------------------------------------------------------------------------
// The scenario
// ---------------------------------------------------------------------------------------------

const SHARDS: usize = 3;

#[tokio::test(flavor = "multi_thread", worker_threads = 4)]
async fn a_bind_is_routed_by_the_key_of_the_statement_it_binds() {
    let logs: Vec<Log> = (0..SHARDS).map(|_| Arc::new(StdMutex::new(Vec::new()))).collect();
    let mut ports = vec![];
    for log in &logs {
        ports.push(spawn_backend(log.clone()).await);
    }

    let mut config = String::from(
        r#"
[general]
host = "127.0.0.1"
port = 6432
admin_username = "admin"
admin_password = "admin"
validate_config = false
connect_timeout = 2000
healthcheck_delay = 600000
healthcheck_timeout = 2000
ban_time = 60

[pools.c06db]
pool_mode = "transaction"
default_role = "primary"
query_parser_enabled = true
query_parser_read_write_splitting = true
primary_reads_enabled = true
sharding_function = "pg_bigint_hash"
automatic_sharding_key = "data.id"
prepared_statements_cache_size = 100

[pools.c06db.users.0]
username = "c06user"
password = "c06password"
auth_type = "trust"
pool_size = 2
"#,
    );
    for (shard, port) in ports.iter().enumerate() {
        config.push_str(&format!(
            "\n[pools.c06db.shards.{shard}]\nservers = [[\"127.0.0.1\", {port}, \"primary\"]]\ndatabase = \"c06db\"\n"
        ));
    }

    let path = std::env::temp_dir().join(format!("d82_c06_{}.toml", std::process::id()));
    std::fs::write(&path, config).unwrap();

    pgcat::query_router::QueryRouter::setup();
    pgcat::config::parse(path.to_str().unwrap()).await.expect("config");
    let client_server_map: pgcat::pool::ClientServerMap = Arc::new(parking_lot::Mutex::new(HashMap::new()));
    pgcat::pool::ConnectionPool::from_config(client_server_map.clone()).await.expect("pools");

    // a key and another value that PostgreSQL's hash puts into different partitions
    let sharder = pgcat::sharding::Sharder::new(SHARDS, pgcat::sharding::ShardingFunction::PgBigintHash);
    let key: i64 = 5;
    // (and not into partition 0, where a statement that is not routed at all ends up)
    let other: i64 = (6..100).find(|v| sharder.shard(*v) != sharder.shard(key) && sharder.shard(*v) != 0).unwrap();
    let key_shard = sharder.shard(key);
    let other_shard = sharder.shard(other);

    let (mut client, pooler_side) = tokio::io::duplex(1 << 16);
    let (read, write) = tokio::io::split(pooler_side);
    let mut startup = BytesMut::new();
    for (k, v) in [("user", "c06user"), ("database", "c06db")] {
        startup.put_slice(k.as_bytes());
        startup.put_u8(0);
        startup.put_slice(v.as_bytes());
        startup.put_u8(0);
    }
    startup.put_u8(0);
    let (_shutdown_tx, shutdown_rx) = tokio::sync::broadcast::channel::<()>(1);
    let handle = tokio::spawn(async move {
        let mut pgcat_client = pgcat::client::Client::startup(read, write, "127.0.0.1:55555".parse().unwrap(), startup, client_server_map, shutdown_rx, false)
            .await
            .expect("client startup");
        let _ = pgcat_client.handle().await;
    });
    let greeting = read_until_ready(&mut client).await;
    assert!(greeting.starts_with('R'), "greeting: {}", greeting);

    // one batch: two statements are prepared, the first one is bound and executed
    let s1 = "SELECT * FROM data WHERE id = $1 AND x = $2";
    let s2 = "SELECT * FROM data WHERE x = $1 AND id = $2";
    let mut batch = parse_msg("s1", s1);
    batch.extend(parse_msg("s2", s2));
    batch.extend(bind_msg("", "s1", &[&key.to_string(), &other.to_string()]));
    batch.extend(execute_msg(""));
    batch.extend(sync_msg());
    client.write_all(&batch).await.unwrap();
    read_until_ready(&mut client).await;

    client.write_all(&msg(b'X', &[])).await.unwrap();
    let _ = tokio::time::timeout(Duration::from_secs(5), handle).await;
    let _ = std::fs::remove_file(&path);

    let seen: Vec<usize> = (0..SHARDS).filter(|s| binds_of(&logs[*s], "id = $1 AND x = $2") > 0).collect();
    assert_eq!(
        seen,
        vec![key_shard],
        "C06: `{}` bound with id = {} (partition {}) and x = {} (partition {}) was executed on shard(s) {:?}",
        s1, key, key_shard, other, other_shard, seen
    );
}

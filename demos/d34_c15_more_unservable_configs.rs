// Demonstration for defect D34 (C15): copy to /repo/tests/ and run
//   cargo test --offline --test d34_c15_more_unservable_configs
// Configurations that cannot be served as written must be rejected with an error. Before the `fix:` commit
// validate() accepted:
//   * general.worker_threads = 0          - tokio's runtime builder panics in main ("Worker threads cannot be set to 0");
//   * two users of one pool with the same username - pools are keyed by (pool, username): the second silently
//     replaces the first (its pool_size, password, server credentials are never used);
//   * a shard_id_regex / sharding_key_regex without a capture group - the router reads group 1, finds none and
//     silently sends every commented query to the default shard.
use pgcat::config::{Config, Pool, Shard, User};

fn base() -> Config {
    let mut c = Config::default();
    let mut p = Pool::default();
    p.shards.clear();
    p.shards.insert("0".into(), Shard::default());
    p.users.clear();
    let mut u = User::default();
    u.password = Some("x".into());
    p.users.insert("0".into(), u);
    c.pools.clear();
    c.pools.insert("db".into(), p);
    c
}

#[test]
fn more_unservable_configs_are_rejected() {
    let mut accepted = vec![];
    assert!(base().validate().is_ok(), "base config must be valid");

    let mut c = base();
    c.general.worker_threads = 0;
    if c.validate().is_ok() { accepted.push("general.worker_threads = 0"); }

    let mut c = base();
    {
        let p = c.pools.get_mut("db").unwrap();
        let mut twin = p.users.get("0").unwrap().clone();
        twin.pool_size = 3;
        p.users.insert("1".into(), twin);
    }
    if c.validate().is_ok() { accepted.push("two users named alike in one pool"); }

    let mut c = base();
    c.pools.get_mut("db").unwrap().shard_id_regex = Some(r"/\* shard_id: \d+ \*/".into());
    if c.validate().is_ok() { accepted.push("shard_id_regex without a capture group"); }

    let mut c = base();
    c.pools.get_mut("db").unwrap().sharding_key_regex = Some(r"/\* sharding_key: \d+ \*/".into());
    if c.validate().is_ok() { accepted.push("sharding_key_regex without a capture group"); }

    // still fine
    let mut c = base();
    c.pools.get_mut("db").unwrap().sharding_key_regex = Some(r"/\* sharding_key: (\d+) \*/".into());
    c.general.worker_threads = 2;
    assert!(c.validate().is_ok(), "a regex with a capture group must be accepted");

    assert!(accepted.is_empty(), "accepted although it cannot be served as written: {:?}", accepted);
}

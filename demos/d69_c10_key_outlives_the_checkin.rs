//! D69 (C10): the key of a client that left inside a transaction keeps pointing at the server connection after the
//! connection went back to the pool.
//!
//! When a client's socket closes inside a transaction (or its idle-in-transaction timeout cuts a message in two),
//! Client::handle cleans the server up (`checkin_cleanup`) and returns an error - without `release()`. The pooled
//! connection is handed back when handle() returns; the client's entry in the cancel map goes only when the Client
//! object is destroyed, after client_entrypoint has reported the departure to the accept loop
//! (`drain.send(-1).await`). Between the two the connection can be - and, with clients queued for it, at once is -
//! another client's, while the departed client's key still names it: a CancelRequest with that key (drivers send one
//! right before they close the socket on a query timeout) cancels the other client's statement.
//!
//! The test makes the window as long as it likes by keeping the accept loop's drain channel full, as a loop that is
//! busy (an inline reload) does: everything else is client_entrypoint as main.rs calls it.
//!   cargo test --offline --test d69_c10_key_outlives_the_checkin -- --nocapture

use std::collections::HashMap;
use std::sync::Arc;
use std::time::Duration;

use bytes::{Buf, BufMut, BytesMut};
use parking_lot::Mutex;
use tokio::io::{AsyncReadExt, AsyncWriteExt};
use tokio::net::{TcpListener, TcpStream};
use tokio::sync::Notify;

use pgcat::client::{client_entrypoint, Client};
use pgcat::pool::{ClientServerMap, ConnectionPool};

const CANCEL_REQUEST_CODE: i32 = 80877102;
const PROTOCOL_VERSION_NUMBER: i32 = 196608;

// ---------------------------------------------------------------------------------------
// Fake PostgreSQL backend
// ---------------------------------------------------------------------------------------

#[derive(Default)]
struct BackendLog {
    /// (backend pid, query text) in order of arrival.
    queries: Vec<(i32, String)>,
    /// (pid, secret) of every CancelRequest received.
    cancels: Vec<(i32, i32)>,
    /// backend pid -> secret
    sessions: HashMap<i32, i32>,
    /// backend pid -> wakes the statement that sleeps there
    sleepers: HashMap<i32, Arc<Notify>>,
}

type Log = Arc<Mutex<BackendLog>>;

fn msg(code: u8, body: &[u8]) -> BytesMut {
    let mut m = BytesMut::new();
    m.put_u8(code);
    m.put_i32(body.len() as i32 + 4);
    m.put_slice(body);
    m
}

fn param(k: &str, v: &str) -> BytesMut {
    let mut b = BytesMut::new();
    b.put_slice(k.as_bytes());
    b.put_u8(0);
    b.put_slice(v.as_bytes());
    b.put_u8(0);
    msg(b'S', &b)
}

fn command_complete(tag: &str) -> BytesMut {
    let mut b = BytesMut::new();
    b.put_slice(tag.as_bytes());
    b.put_u8(0);
    msg(b'C', &b)
}

fn error_response(code: &str, text: &str) -> BytesMut {
    let mut b = BytesMut::new();
    for (f, v) in [(b'S', "ERROR"), (b'V', "ERROR"), (b'C', code), (b'M', text)] {
        b.put_u8(f);
        b.put_slice(v.as_bytes());
        b.put_u8(0);
    }
    b.put_u8(0);
    msg(b'E', &b)
}

async fn backend_session(mut s: TcpStream, log: Log, pid: i32, secret: i32) {
    let mut out = BytesMut::new();
    out.extend_from_slice(&msg(b'R', &0i32.to_be_bytes()));
    out.extend_from_slice(&param("server_version", "14.5"));
    out.extend_from_slice(&param("client_encoding", "UTF8"));
    out.extend_from_slice(&param("server_encoding", "UTF8"));
    out.extend_from_slice(&param("DateStyle", "ISO, MDY"));
    out.extend_from_slice(&param("TimeZone", "Etc/UTC"));
    out.extend_from_slice(&param("standard_conforming_strings", "on"));
    out.extend_from_slice(&param("application_name", "pgcat"));
    let mut k = BytesMut::new();
    k.put_i32(pid);
    k.put_i32(secret);
    out.extend_from_slice(&msg(b'K', &k));
    out.extend_from_slice(&msg(b'Z', b"I"));
    if s.write_all(&out).await.is_err() {
        return;
    }

    let mut status = b'I';
    loop {
        let code = match s.read_u8().await {
            Ok(c) => c,
            Err(_) => return,
        };
        let len = match s.read_i32().await {
            Ok(l) => l,
            Err(_) => return,
        };
        let mut body = vec![0u8; len as usize - 4];
        if s.read_exact(&mut body).await.is_err() {
            return;
        }
        match code {
            b'Q' => {
                let q = String::from_utf8_lossy(&body[..body.len() - 1]).to_string();
                log.lock().queries.push((pid, q.clone()));
                let upper = q.to_uppercase();
                let mut reply = BytesMut::new();
                if upper.contains("PG_SLEEP") {
                    let wake = Arc::new(Notify::new());
                    log.lock().sleepers.insert(pid, wake.clone());
                    let cancelled =
                        tokio::time::timeout(Duration::from_millis(1500), wake.notified())
                            .await
                            .is_ok();
                    log.lock().sleepers.remove(&pid);
                    if cancelled {
                        reply.extend_from_slice(&error_response(
                            "57014",
                            "canceling statement due to user request",
                        ));
                        if status == b'T' {
                            status = b'E';
                        }
                    } else {
                        reply.extend_from_slice(&command_complete("SELECT 1"));
                    }
                } else if upper.starts_with("BEGIN") {
                    status = b'T';
                    reply.extend_from_slice(&command_complete("BEGIN"));
                } else if upper.starts_with("ROLLBACK") {
                    status = b'I';
                    reply.extend_from_slice(&command_complete("ROLLBACK"));
                } else if upper.starts_with("COMMIT") {
                    status = b'I';
                    reply.extend_from_slice(&command_complete("COMMIT"));
                } else if upper.starts_with("SET") {
                    reply.extend_from_slice(&command_complete("SET"));
                } else if upper.starts_with("RESET") {
                    reply.extend_from_slice(&command_complete("RESET"));
                } else {
                    reply.extend_from_slice(&command_complete("SELECT 1"));
                }
                reply.extend_from_slice(&msg(b'Z', &[status]));
                if s.write_all(&reply).await.is_err() {
                    return;
                }
            }
            b'X' => return,
            _ => {}
        }
    }
}

async fn fake_backend(listener: TcpListener, log: Log) {
    let mut next_pid = 4100;
    loop {
        let (mut s, _) = match listener.accept().await {
            Ok(x) => x,
            Err(_) => return,
        };
        next_pid += 1;
        let pid = next_pid;
        let secret = 770000 + pid;
        let log = log.clone();
        tokio::spawn(async move {
            let len = match s.read_i32().await {
                Ok(l) => l,
                Err(_) => return,
            };
            let mut rest = vec![0u8; len as usize - 4];
            if s.read_exact(&mut rest).await.is_err() {
                return;
            }
            let mut rest = BytesMut::from(&rest[..]);
            match rest.get_i32() {
                CANCEL_REQUEST_CODE => {
                    let (p, k) = (rest.get_i32(), rest.get_i32());
                    let mut g = log.lock();
                    g.cancels.push((p, k));
                    // What the postmaster does: signal the backend if the key matches.
                    if g.sessions.get(&p) == Some(&k) {
                        if let Some(w) = g.sleepers.get(&p) {
                            w.notify_one();
                        }
                    }
                }
                PROTOCOL_VERSION_NUMBER => {
                    log.lock().sessions.insert(pid, secret);
                    backend_session(s, log, pid, secret).await;
                }
                _ => {}
            }
        });
    }
}

// ---------------------------------------------------------------------------------------
// Client side helpers
// ---------------------------------------------------------------------------------------

fn startup_packet(user: &str, db: &str) -> BytesMut {
    let mut b = BytesMut::new();
    b.put_i32(PROTOCOL_VERSION_NUMBER);
    for s in ["user", user, "database", db] {
        b.put_slice(s.as_bytes());
        b.put_u8(0);
    }
    b.put_u8(0);
    let mut m = BytesMut::new();
    m.put_i32(b.len() as i32 + 4);
    m.put(b);
    m
}

async fn read_msg(s: &mut TcpStream) -> (u8, BytesMut) {
    let code = s.read_u8().await.expect("message code");
    let len = s.read_i32().await.expect("message length");
    let mut body = vec![0u8; len as usize - 4];
    s.read_exact(&mut body).await.expect("message body");
    (code, BytesMut::from(&body[..]))
}

/// Reads until ReadyForQuery; returns the codes seen and the BackendKeyData if any.
async fn read_until_ready(s: &mut TcpStream) -> (Vec<u8>, Option<(i32, i32)>) {
    let mut codes = vec![];
    let mut key = None;
    loop {
        let (code, mut body) = tokio::time::timeout(Duration::from_secs(10), read_msg(s))
            .await
            .expect("timed out waiting for pgcat");
        codes.push(code);
        if code == b'K' {
            key = Some((body.get_i32(), body.get_i32()));
        }
        if code == b'Z' {
            return (codes, key);
        }
    }
}

fn simple_query(q: &str) -> BytesMut {
    let mut b = BytesMut::new();
    b.put_slice(q.as_bytes());
    b.put_u8(0);
    msg(b'Q', &b)
}

async fn wait_for<F: Fn(&BackendLog) -> bool>(log: &Log, what: &str, cond: F) {
    for _ in 0..500 {
        if cond(&log.lock()) {
            return;
        }
        tokio::time::sleep(Duration::from_millis(10)).await;
    }
    panic!("timed out waiting for: {}", what);
}

/// A client connects through a listener that hands the socket to client_entrypoint, as main.rs does.
async fn connect(front: u16) -> (TcpStream, (i32, i32)) {
    let mut s = TcpStream::connect(("127.0.0.1", front)).await.unwrap();
    s.write_all(&startup_packet("app", "db")).await.unwrap();
    let (_, key) = read_until_ready(&mut s).await;
    (s, key.expect("pgcat issued no BackendKeyData"))
}

#[tokio::test(flavor = "multi_thread", worker_threads = 4)]
async fn the_key_of_a_departed_client_names_no_server() {
    let listener = TcpListener::bind("127.0.0.1:0").await.unwrap();
    let port = listener.local_addr().unwrap().port();
    let log: Log = Arc::new(Mutex::new(BackendLog::default()));
    tokio::spawn(fake_backend(listener, log.clone()));

    let cfg = format!(
        r#"
[general]
host = "127.0.0.1"
port = 6432
admin_username = "admin"
admin_password = "admin"
validate_config = false

[pools.db]
pool_mode = "transaction"

[pools.db.users.0]
username = "app"
password = "app"
auth_type = "trust"
pool_size = 1

[pools.db.shards.0]
servers = [["127.0.0.1", {}, "primary"]]
database = "postgres"
"#,
        port
    );
    let path = std::env::temp_dir().join(format!("d69_{}.toml", std::process::id()));
    std::fs::write(&path, cfg).unwrap();
    pgcat::config::parse(path.to_str().unwrap()).await.expect("config");
    let _ = std::fs::remove_file(&path);
    let map: ClientServerMap = Arc::new(Mutex::new(HashMap::new()));
    ConnectionPool::from_config(map.clone()).await.expect("pool");

    // the front: what main.rs does for every accepted socket; the test plays the accept loop's drain arm
    let front_listener = TcpListener::bind("127.0.0.1:0").await.unwrap();
    let front = front_listener.local_addr().unwrap().port();
    let (shutdown_tx, _keep) = tokio::sync::broadcast::channel::<()>(1);
    let (drain_tx, mut drain_rx) = tokio::sync::mpsc::channel::<i32>(1);
    {
        let map = map.clone();
        let drain_tx = drain_tx.clone();
        tokio::spawn(async move {
            loop {
                let (socket, _) = front_listener.accept().await.unwrap();
                let (map, rx, dtx) = (map.clone(), shutdown_tx.subscribe(), drain_tx.clone());
                tokio::spawn(async move {
                    let _ = client_entrypoint(socket, map, rx, dtx, false, None, false).await;
                });
            }
        });
    }

    // 1. X logs in (the loop takes its +1) and opens a transaction: it holds S.
    let (mut x, x_key) = connect(front).await;
    assert_eq!(drain_rx.recv().await, Some(1));
    x.write_all(&simple_query("BEGIN")).await.unwrap();
    let (codes, _) = read_until_ready(&mut x).await;
    assert!(codes.contains(&b'C'), "BEGIN failed: {:?}", codes);
    let s_identity = {
        let g = map.lock();
        let e = g.get(&x_key).expect("X holds a server: its key is mapped");
        (e.0, e.1)
    };

    // 2. Y logs in as well; from now on the loop is busy: Y's +1 stays in the channel, which is then full.
    let (mut y, _y_key) = connect(front).await;

    // 3. X vanishes inside its transaction. pgcat rolls back and hands S back to the pool.
    drop(x);
    wait_for(&log, "the ROLLBACK of X's transaction", |l| l.queries.iter().any(|(_, q)| q == "ROLLBACK")).await;
    tokio::time::sleep(Duration::from_millis(200)).await;

    // 4. Y gets S and runs a long statement.
    y.write_all(&simple_query("SELECT pg_sleep(10)")).await.unwrap();
    wait_for(&log, "Y's statement to start on the server", |l| !l.sleepers.is_empty()).await;
    let y_backend = *log.lock().sleepers.keys().next().unwrap();
    assert_eq!(y_backend, s_identity.0, "test setup: Y runs on the connection X used");
    let stale_entry = map.lock().get(&x_key).cloned();

    // 5. X's driver had sent its CancelRequest on the way out; it is served now.
    {
        let (_ours, theirs) = tokio::io::duplex(1024);
        let (read, write) = tokio::io::split(theirs);
        let mut bytes = BytesMut::new();
        bytes.put_i32(x_key.0);
        bytes.put_i32(x_key.1);
        let (shutdown_tx2, _k2) = tokio::sync::broadcast::channel::<()>(1);
        let mut canceller = Client::cancel(read, write, "127.0.0.1:40003".parse().unwrap(), bytes, map.clone(), shutdown_tx2.subscribe())
            .await
            .unwrap();
        let _ = canceller.handle().await;
    }

    // Y's statement runs to its end (the fake backend sleeps 1.5 s unless cancelled).
    let (y_codes, _) = read_until_ready(&mut y).await;
    let cancels = log.lock().cancels.clone();
    println!("X's key: {:?}; server connection S: {:?}", x_key, s_identity);
    println!("entry under X's key while Y runs on S: {:?}", stale_entry);
    println!("CancelRequests received by the server: {:?}", cancels);

    // let the loop go on (not needed for the verdict)
    while let Ok(Some(_)) = tokio::time::timeout(Duration::from_millis(200), drain_rx.recv()).await {}

    assert!(
        cancels.is_empty() && !y_codes.contains(&b'E'),
        "C10: X has left and holds no server, S is running Y's statement - X's key made pgcat send CancelRequest{:?} to S and Y's statement was cancelled (entry still mapped: {:?})",
        cancels,
        stale_entry
    );
}

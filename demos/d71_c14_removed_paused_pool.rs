//! D71 (C14, C16): a client held by PAUSE on a pool that a RELOAD removes waits for ever.
//!
//! PAUSE holds clients at the pool's gate (`wait_paused`). RESUME walks the pools of the current POOLS map and
//! opens their gates. A pool that a reload removed is in no map any more: nothing can ever open its gate. The
//! clients held there get neither the error C14 promises the clients of a removed pool ("No pool configured")
//! nor an answer, and their tasks leak. (A pool that a reload *rebuilds* takes the old pool's gate over, D62;
//! this is the other half.)
//!
//! No PostgreSQL server is needed (validate_config = false, nobody checks out a connection).
//!   cargo test --offline --test d71_c14_removed_paused_pool

use std::collections::HashMap;
use std::sync::Arc;
use std::time::Duration;

use bytes::{BufMut, BytesMut};
use parking_lot::Mutex;

use pgcat::admin::handle_admin;
use pgcat::config::{self, reload_config};
use pgcat::pool::{get_pool, ClientServerMap, ConnectionPool};

fn pool_section(name: &str) -> String {
    format!(
        r#"
[pools.{name}.users.0]
username = "app"
password = "pw"
pool_size = 2
pool_mode = "transaction"

[pools.{name}.shards.0]
servers = [["127.0.0.1", 1, "primary"]]
database = "postgres"
"#
    )
}

fn config_toml(pools: &[&str]) -> String {
    let mut s = String::from(
        r#"
[general]
host = "127.0.0.1"
port = 16433
admin_username = "admin"
admin_password = "admin"
validate_config = false
"#,
    );
    for p in pools {
        s.push_str(&pool_section(p));
    }
    s
}

fn simple_query(sql: &str) -> BytesMut {
    let mut m = BytesMut::new();
    m.put_u8(b'Q');
    m.put_i32(4 + sql.len() as i32 + 1);
    m.put_slice(sql.as_bytes());
    m.put_u8(0);
    m
}

async fn admin(sql: &str, map: &ClientServerMap) {
    let mut out: Vec<u8> = Vec::new();
    handle_admin(&mut out, simple_query(sql), map.clone())
        .await
        .unwrap_or_else(|e| panic!("admin command {sql:?} failed: {e:?}"));
    assert_eq!(out[0], b'C', "{sql}: {:?}", String::from_utf8_lossy(&out));
}

#[tokio::test(flavor = "multi_thread", worker_threads = 2)]
async fn clients_held_on_a_removed_pool_are_let_go() {
    let path = std::env::temp_dir().join(format!("d71_pgcat_{}.toml", std::process::id()));
    let path_str = path.to_str().unwrap().to_string();
    std::fs::write(&path, config_toml(&["billing", "reports"])).unwrap();
    let map: ClientServerMap = Arc::new(Mutex::new(HashMap::new()));
    config::parse(&path_str).await.expect("config parses");
    ConnectionPool::from_config(map.clone()).await.expect("pools are built");

    // three clients of `billing`, each with its own handle on the pool (what Client::handle holds)
    let handles: Vec<ConnectionPool> = (0..3).map(|_| get_pool("billing", "app").unwrap()).collect();
    admin("PAUSE billing,app", &map).await;
    let mut waiters = Vec::new();
    for pool in handles {
        waiters.push(tokio::spawn(async move { pool.wait_paused().await }));
    }
    tokio::time::sleep(Duration::from_millis(200)).await;
    assert!(waiters.iter().all(|w| !w.is_finished()), "the clients are held by PAUSE");

    // the operator takes `billing` out of the file and reloads
    std::fs::write(&path, config_toml(&["reports"])).unwrap();
    assert_eq!(reload_config(map.clone()).await, Ok(true));
    assert!(get_pool("billing", "app").is_none(), "the pool is gone");
    let _ = std::fs::remove_file(&path);

    // nothing the operator can do reaches the old gate ...
    admin("RESUME", &map).await;

    // ... so the reload itself has to let the held clients go: past the gate they re-resolve their pool and get
    // `No pool configured` (Client::get_pool), which is what C14 promises the clients of a removed pool
    let mut stuck = vec![];
    for (i, w) in waiters.into_iter().enumerate() {
        if tokio::time::timeout(Duration::from_secs(3), w).await.is_err() {
            stuck.push(i);
        }
    }
    assert!(
        stuck.is_empty(),
        "C14/C16: pool billing was removed by the reload and RESUME was issued; clients {stuck:?} are still blocked in wait_paused() on a gate nothing can open any more - they never get the error of a removed pool"
    );
}

//! D77 (C18): a reload that rebuilds a pool resets the totals of its servers to zero.
//!
//! SHOW STATS reports, per server of a pool, totals that are only ever to grow (total_xact_count, total_query_count,
//! total_received, total_sent, total_errors ...). They live in `Address.stats`, and from_config gave every address of a
//! pool it builds a fresh `AddressStats::default()`: a reload that changes anything in the pool's definition - or, since
//! the pool identity covers them, a general setting such as ban_time - makes every total of that pool fall back to 0.
//! Monitoring that derives rates from the totals sees a negative jump at every such reload.
//!
//! No PostgreSQL server is needed (validate_config = false).
//!   cargo test --offline --test d77_c18_totals_survive_a_rebuild

use std::collections::HashMap;
use std::sync::Arc;

use parking_lot::Mutex;

use pgcat::config::{self, reload_config};
use pgcat::pool::{get_pool, ClientServerMap, ConnectionPool};

fn config_toml(pool_size: u32, replica_port: u16) -> String {
    format!(
        r#"
[general]
host = "127.0.0.1"
port = 16433
admin_username = "admin"
admin_password = "admin"
validate_config = false

[pools.db.users.0]
username = "app"
password = "pw"
pool_size = {pool_size}
pool_mode = "transaction"

[pools.db.shards.0]
servers = [["127.0.0.1", 5432, "primary"], ["127.0.0.1", {replica_port}, "replica"]]
database = "postgres"
"#
    )
}

fn total(server: usize, name: &str) -> u64 {
    let pool = get_pool("db", "app").unwrap();
    let stats = (*pool.address(0, server).stats).clone();
    stats.into_iter().find(|(key, _)| key == name).map(|(_, value)| value).unwrap()
}

#[tokio::test(flavor = "multi_thread", worker_threads = 2)]
async fn totals_never_decrease() {
    let path = std::env::temp_dir().join(format!("d77_pgcat_{}.toml", std::process::id()));
    let path_str = path.to_str().unwrap().to_string();
    std::fs::write(&path, config_toml(5, 5433)).unwrap();
    let map: ClientServerMap = Arc::new(Mutex::new(HashMap::new()));
    config::parse(&path_str).await.expect("config parses");
    ConnectionPool::from_config(map.clone()).await.expect("pools are built");

    // traffic: what Server / Client record on the address while they work
    {
        let pool = get_pool("db", "app").unwrap();
        for _ in 0..7 {
            pool.address(0, 0).stats.xact_count_add();
            pool.address(0, 0).stats.query_count_add();
        }
        pool.address(0, 0).stats.bytes_sent_add(4096);
        for _ in 0..3 {
            pool.address(0, 1).stats.xact_count_add();
        }
        pool.address(0, 1).stats.error();
    }
    assert_eq!(total(0, "total_xact_count"), 7);

    let mut failures = vec![];

    // reload 1: the pool is resized - same servers
    std::fs::write(&path, config_toml(10, 5433)).unwrap();
    assert_eq!(reload_config(map.clone()).await, Ok(true));
    for (server, name, before) in [(0, "total_xact_count", 7), (0, "total_query_count", 7), (0, "total_sent", 4096), (1, "total_xact_count", 3), (1, "total_errors", 1)] {
        let now = total(server, name);
        if now < before {
            failures.push(format!("after a reload that resized the pool, {} of server {} went from {} to {}", name, server, before, now));
        }
    }

    // reload 2: the replica moves to another port - the primary is the same server as before, the replica is a new one
    std::fs::write(&path, config_toml(10, 5434)).unwrap();
    assert_eq!(reload_config(map.clone()).await, Ok(true));
    let now = total(0, "total_xact_count");
    if now < 7 {
        failures.push(format!("after a reload that replaced the replica, total_xact_count of the primary (unchanged) went from 7 to {}", now));
    }
    assert_eq!(total(1, "total_xact_count"), 0, "a server that was not there before starts at 0");

    let _ = std::fs::remove_file(&path);
    assert!(failures.is_empty(), "C18: no total ever decreases\n{}", failures.join("\n"));
}

//! D62 (C16): PAUSE, RELOAD of a *changed* pool, RESUME - the clients held at the gate hang for ever.
//!
//! from_config builds a pool whose definition changed from scratch, with a fresh `paused` flag and a fresh
//! Notify. The clients that were held when the reload happened sleep on the old pool's Notify; RESUME walks the
//! pools in POOLS and notifies the new one. The pause itself is silently lost for new transactions as well.
//! (Adapted from the demonstration the round-6 seeding agent wrote for its own change.)
//!
//!   cargo test --offline --test d62_c16_rebuilt_pool_keeps_its_gate

use std::collections::HashMap;
use std::sync::Arc;
use std::time::Duration;

use bytes::{BufMut, BytesMut};
use parking_lot::Mutex;

use pgcat::admin::handle_admin;
use pgcat::config;
use pgcat::pool::{get_all_pools, get_pool, ClientServerMap, ConnectionPool};

fn config_toml(pool_size: u32) -> String {
    format!(
        r#"
[general]
host = "127.0.0.1"
port = 16433
admin_username = "admin"
admin_password = "admin"
validate_config = false

[pools.db.users.0]
username = "user"
password = "pw"
pool_size = {pool_size}
min_pool_size = 0
pool_mode = "transaction"

[pools.db.shards.0]
servers = [["127.0.0.1", 1, "primary"]]
database = "postgres"
"#
    )
}

fn simple_query(sql: &str) -> BytesMut {
    let mut m = BytesMut::new();
    m.put_u8(b'Q');
    m.put_i32(4 + sql.len() as i32 + 1);
    m.put_slice(sql.as_bytes());
    m.put_u8(0);
    m
}

async fn admin(sql: &str, map: &ClientServerMap) {
    let mut out: Vec<u8> = Vec::new();
    handle_admin(&mut out, simple_query(sql), map.clone())
        .await
        .unwrap_or_else(|e| panic!("admin command {sql:?} failed: {e:?}"));
    assert!(
        !out.is_empty() && out[0] == b'C',
        "admin command {sql:?} was not answered with CommandComplete: {:?}",
        String::from_utf8_lossy(&out)
    );
}

#[tokio::test(flavor = "multi_thread", worker_threads = 2)]
async fn resume_after_reload_releases_every_held_client() {
    let path = std::env::temp_dir().join(format!("c16_pgcat_{}.toml", std::process::id()));
    let path_str = path.to_str().unwrap().to_string();
    std::fs::write(&path, config_toml(2)).unwrap();

    let map: ClientServerMap = Arc::new(Mutex::new(HashMap::new()));

    config::parse(&path_str).await.expect("config parses");
    ConnectionPool::from_config(map.clone())
        .await
        .expect("pools are built");

    // 1. three clients, each with its own handle on the pool, as Client::handle has.
    const CLIENTS: usize = 3;
    let handles: Vec<ConnectionPool> = (0..CLIENTS)
        .map(|_| get_pool("db", "user").expect("pool exists"))
        .collect();

    // 2. PAUSE
    admin("PAUSE", &map).await;
    assert!(get_pool("db", "user").unwrap().paused());

    // 3. the clients arrive at the gate
    let mut waiters = Vec::new();
    for pool in handles {
        waiters.push(tokio::spawn(async move { pool.wait_paused().await }));
    }
    tokio::time::sleep(Duration::from_millis(200)).await;
    for (i, w) in waiters.iter().enumerate() {
        assert!(!w.is_finished(), "client {i} passed the gate of a paused pool");
    }

    // 4. the pool's own definition changes (pool_size): the pool is rebuilt by the RELOAD
    std::fs::write(&path, config_toml(3)).unwrap();
    admin("RELOAD", &map).await;
    assert_eq!(get_pool("db", "user").unwrap().settings.user.pool_size, 3, "the pool was rebuilt");

    // 5. nobody was let through by the reload, and the pool still says it is paused
    tokio::time::sleep(Duration::from_millis(100)).await;
    for (i, w) in waiters.iter().enumerate() {
        assert!(!w.is_finished(), "client {i} was released by RELOAD");
    }
    for (id, pool) in get_all_pools() {
        assert!(pool.paused(), "pool {id} lost its pause in the reload");
    }

    // 6. RESUME
    admin("RESUME", &map).await;
    for (id, pool) in get_all_pools() {
        assert!(!pool.paused(), "pool {id} still paused after RESUME");
    }

    // 7. every held client proceeds
    let mut stuck = Vec::new();
    for (i, w) in waiters.into_iter().enumerate() {
        match tokio::time::timeout(Duration::from_secs(3), w).await {
            Ok(joined) => {
                assert!(joined.unwrap(), "client {i} had seen the pause");
            }
            Err(_) => stuck.push(i),
        }
    }

    let _ = std::fs::remove_file(&path);

    assert!(
        stuck.is_empty(),
        "RESUME did not release clients {stuck:?}: they are still blocked in wait_paused() \
         although no pool is paused any more"
    );
}

//! D67 (C18): a client whose task panics stays in SHOW CLIENTS for ever.
//!
//! Several decoders of client messages panic on malformed input (C11's inventory lists them; the panic is
//! task-local and only ends the sender's connection). The shortest one: a `Q` message of length 4 - no
//! query string at all - makes `read_string()` index `buf[..0 - 1]`. The panic unwinds through
//! client_entrypoint, so neither Client::handle's `stats.disconnect()` nor the safety net behind it
//! (`if result.is_err() { client.stats.disconnect() }`) runs: the entry stays in CLIENT_STATS. Every such
//! client leaves one ghost row in SHOW CLIENTS / one count in SHOW LISTS and SHOW POOLS, and the
//! registry grows by one entry per attempt.
//!
//! Harness: the one of seeded/C18-admin-client-error-exit-not-deregistered (fake backend, a listener that
//! hands sockets to client_entrypoint the way main.rs does, hand-written clients).
//!   cargo test --offline --test d67_c18_panicking_client_stays_listed

use std::collections::HashMap;
use std::sync::Arc;
use std::time::Duration;

use bytes::{Buf, BufMut, BytesMut};
use parking_lot::Mutex;
use tokio::io::{AsyncReadExt, AsyncWriteExt};
use tokio::net::{TcpListener, TcpStream};

use pgcat::pool::{ClientServerMap, ConnectionPool};
use pgcat::stats::get_client_stats;

// ---------------------------------------------------------------- fake backend

fn param(buf: &mut BytesMut, k: &str, v: &str) {
    buf.put_u8(b'S');
    buf.put_i32(4 + k.len() as i32 + 1 + v.len() as i32 + 1);
    buf.put_slice(k.as_bytes());
    buf.put_u8(0);
    buf.put_slice(v.as_bytes());
    buf.put_u8(0);
}

fn ready(buf: &mut BytesMut) {
    buf.put_u8(b'Z');
    buf.put_i32(5);
    buf.put_u8(b'I');
}

async fn backend_connection(mut s: TcpStream) {
    // Startup packet.
    let len = match s.read_i32().await {
        Ok(len) => len,
        Err(_) => return,
    };
    let mut rest = vec![0u8; (len - 4) as usize];
    if s.read_exact(&mut rest).await.is_err() {
        return;
    }

    let mut out = BytesMut::new();
    out.put_u8(b'R');
    out.put_i32(8);
    out.put_i32(0);
    param(&mut out, "server_version", "14.0");
    param(&mut out, "client_encoding", "UTF8");
    param(&mut out, "server_encoding", "UTF8");
    param(&mut out, "DateStyle", "ISO, MDY");
    param(&mut out, "TimeZone", "UTC");
    param(&mut out, "standard_conforming_strings", "on");
    param(&mut out, "integer_datetimes", "on");
    param(&mut out, "application_name", "pgcat");
    out.put_u8(b'K');
    out.put_i32(12);
    out.put_i32(4242);
    out.put_i32(2424);
    ready(&mut out);
    if s.write_all(&out).await.is_err() {
        return;
    }

    loop {
        let code = match s.read_u8().await {
            Ok(code) => code,
            Err(_) => return,
        };
        let len = match s.read_i32().await {
            Ok(len) => len,
            Err(_) => return,
        };
        let mut body = vec![0u8; (len - 4) as usize];
        if s.read_exact(&mut body).await.is_err() {
            return;
        }

        match code {
            b'Q' => {
                let mut out = BytesMut::new();
                let tag = b"SELECT 1\0";
                out.put_u8(b'C');
                out.put_i32(4 + tag.len() as i32);
                out.put_slice(tag);
                ready(&mut out);
                if s.write_all(&out).await.is_err() {
                    return;
                }
            }
            b'X' => return,
            _ => (),
        }
    }
}

async fn start_backend() -> u16 {
    let listener = TcpListener::bind("127.0.0.1:0").await.unwrap();
    let port = listener.local_addr().unwrap().port();
    tokio::spawn(async move {
        loop {
            if let Ok((s, _)) = listener.accept().await {
                tokio::spawn(backend_connection(s));
            }
        }
    });
    port
}

// ---------------------------------------------------------------- pgcat front

/// What main.rs does for every accepted socket. Returns the port and a counter of
/// client tasks that have ended (client_entrypoint has returned and the Client is dropped).
async fn start_pgcat() -> (u16, Arc<Mutex<Vec<Result<(), String>>>>) {
    let listener = TcpListener::bind("127.0.0.1:0").await.unwrap();
    let port = listener.local_addr().unwrap().port();
    let client_server_map: ClientServerMap = Arc::new(Mutex::new(HashMap::new()));
    let ended = Arc::new(Mutex::new(Vec::new()));

    let (shutdown_tx, _) = tokio::sync::broadcast::channel::<()>(1);
    let (drain_tx, mut drain_rx) = tokio::sync::mpsc::channel::<i32>(2048);
    tokio::spawn(async move { while drain_rx.recv().await.is_some() {} });

    let ended_in_task = ended.clone();
    tokio::spawn(async move {
        // Keep the sender alive for as long as clients are served.
        let shutdown_tx = shutdown_tx;
        loop {
            let (socket, _) = match listener.accept().await {
                Ok(accepted) => accepted,
                Err(_) => continue,
            };
            let shutdown_rx = shutdown_tx.subscribe();
            let drain_tx = drain_tx.clone();
            let client_server_map = client_server_map.clone();
            let ended = ended_in_task.clone();
            tokio::spawn(async move {
                let result = pgcat::client::client_entrypoint(
                    socket,
                    client_server_map,
                    shutdown_rx,
                    drain_tx,
                    false,
                    None,
                    false,
                )
                .await;
                ended.lock().push(result.map_err(|err| format!("{:?}", err)));
            });
            // (a task that panics never gets to push: the test waits for the socket to close instead)
        }
    });

    (port, ended)
}

// ---------------------------------------------------------------- a client

struct TestClient {
    s: TcpStream,
}

impl TestClient {
    async fn connect(port: u16, user: &str, database: &str) -> TestClient {
        let mut s = TcpStream::connect(("127.0.0.1", port)).await.unwrap();
        let mut body = BytesMut::new();
        body.put_i32(196608);
        for (k, v) in [
            ("user", user),
            ("database", database),
            ("application_name", "demo"),
        ] {
            body.put_slice(k.as_bytes());
            body.put_u8(0);
            body.put_slice(v.as_bytes());
            body.put_u8(0);
        }
        body.put_u8(0);
        let mut msg = BytesMut::new();
        msg.put_i32(4 + body.len() as i32);
        msg.put_slice(&body);
        s.write_all(&msg).await.unwrap();

        let mut client = TestClient { s };
        let messages = client.read_until_ready().await;
        assert!(
            messages.iter().any(|(code, _)| *code == b'R'),
            "login of {}@{} failed: {:?}",
            user,
            database,
            messages
        );
        client
    }

    async fn read_message(&mut self) -> Option<(u8, Vec<u8>)> {
        let code = self.s.read_u8().await.ok()?;
        let len = self.s.read_i32().await.ok()?;
        let mut body = vec![0u8; (len - 4) as usize];
        self.s.read_exact(&mut body).await.ok()?;
        Some((code, body))
    }

    /// All messages up to and including ReadyForQuery (or up to the end of the stream).
    async fn read_until_ready(&mut self) -> Vec<(u8, Vec<u8>)> {
        let mut messages = Vec::new();
        loop {
            match tokio::time::timeout(Duration::from_secs(10), self.read_message()).await {
                Ok(Some(message)) => {
                    let done = message.0 == b'Z';
                    messages.push(message);
                    if done {
                        return messages;
                    }
                }
                Ok(None) => return messages,
                Err(_) => panic!("no reply from pgcat within 10 s, got {:?}", messages),
            }
        }
    }

    async fn query(&mut self, sql: &str) -> Vec<(u8, Vec<u8>)> {
        let mut msg = BytesMut::new();
        msg.put_u8(b'Q');
        msg.put_i32(4 + sql.len() as i32 + 1);
        msg.put_slice(sql.as_bytes());
        msg.put_u8(0);
        self.s.write_all(&msg).await.unwrap();
        self.read_until_ready().await
    }

    async fn terminate(mut self) {
        let mut msg = BytesMut::new();
        msg.put_u8(b'X');
        msg.put_i32(4);
        self.s.write_all(&msg).await.unwrap();
    }
}

/// The text columns of every DataRow.
fn rows(messages: &[(u8, Vec<u8>)]) -> Vec<Vec<String>> {
    messages
        .iter()
        .filter(|(code, _)| *code == b'D')
        .map(|(_, body)| {
            let mut body = &body[..];
            let columns = body.get_i16();
            (0..columns)
                .map(|_| {
                    let len = body.get_i32();
                    if len < 0 {
                        return String::new();
                    }
                    let value = String::from_utf8_lossy(&body[..len as usize]).to_string();
                    body.advance(len as usize);
                    value
                })
                .collect()
        })
        .collect()
}

async fn wait_for_ended(ended: &Arc<Mutex<Vec<Result<(), String>>>>, n: usize) {
    for _ in 0..500 {
        if ended.lock().len() >= n {
            return;
        }
        tokio::time::sleep(Duration::from_millis(10)).await;
    }
    panic!(
        "only {} of {} client tasks have ended after 5 s",
        ended.lock().len(),
        n
    );
}

fn listed_clients() -> Vec<String> {
    get_client_stats()
        .values()
        .map(|client| {
            format!(
                "{:#010X} {}@{} {}",
                client.client_id(),
                client.username(),
                client.pool_name(),
                client
                    .state
                    .load(std::sync::atomic::Ordering::Relaxed)
            )
        })
        .collect()
}

#[tokio::test(flavor = "multi_thread", worker_threads = 2)]
async fn a_client_whose_task_panicked_is_gone_from_the_statistics() {
    let backend_port = start_backend().await;

    let config = format!(
        r#"
[general]
host = "127.0.0.1"
port = 6432
admin_username = "admin_user"
admin_password = "admin_pass"
admin_auth_type = "trust"
validate_config = false
connect_timeout = 2000
healthcheck_delay = 600000

[pools.db]
pool_mode = "transaction"
query_parser_enabled = true

[pools.db.users.0]
username = "app"
password = "app"
auth_type = "trust"
pool_size = 2

[pools.db.shards.0]
servers = [["127.0.0.1", {}, "primary"]]
database = "db"
"#,
        backend_port
    );
    let path = std::env::temp_dir().join(format!("d67_{}.toml", std::process::id()));
    std::fs::write(&path, config).unwrap();
    pgcat::config::parse(path.to_str().unwrap())
        .await
        .expect("config");
    ConnectionPool::from_config(Arc::new(Mutex::new(HashMap::new())))
        .await
        .expect("pools");
    let _ = std::fs::remove_file(&path);

    let (port, _ended) = start_pgcat().await;
    assert!(listed_clients().is_empty());

    for round in 1..=3 {
        let mut client = TestClient::connect(port, "app", "db").await;
        let reply = client.query("SELECT 1").await;
        assert!(reply.iter().any(|(code, _)| *code == b'C'), "{:?}", reply);
        assert!(!listed_clients().is_empty(), "{:?}", listed_clients());

        // a Query message without a query string: code 'Q', length 4, nothing else
        let mut msg = BytesMut::new();
        msg.put_u8(b'Q');
        msg.put_i32(4);
        client.s.write_all(&msg).await.unwrap();

        // pgcat closes the connection (the client's task has ended, one way or the other)
        let rest = tokio::time::timeout(Duration::from_secs(5), client.read_until_ready()).await;
        assert!(rest.is_ok(), "pgcat did not end the session of the client that sent the malformed message");
        tokio::time::sleep(Duration::from_millis(200)).await;
        println!("round {}: listed afterwards = {:?}", round, listed_clients());
    }

    assert!(
        listed_clients().is_empty(),
        "C18: three clients have connected, sent a malformed Query and been disconnected; none is connected now, SHOW CLIENTS still lists {:?}",
        listed_clients()
    );
}

// Demonstration for defects D23 and D24 (C06): copy to /repo/tests/ and run
//   cargo test --offline --test d23_c06_bind_parameter_positions
// A sharding key that arrives as a bound parameter must pick the same shard as the same key sent any
// other way, whatever else the statement binds.
//  D23: infer_shard_from_bind did not skip the bytes of parameters that are not the key (nor NULLs, nor a
//       binary parameter of an unexpected width): for `WHERE name LIKE $1 AND id = $2` the key $2 was read
//       from the middle of $1 - wrong shard, no shard, or a panic that disconnects the client.
//  D24: selection_parser recorded every `col = $n` as a sharding-key placeholder, not only the ones whose
//       left-hand side is the key column (the literal arm does check): `WHERE name = $1 AND id = $2` gave
//       two candidate shards and was not routed, `WHERE age = $1` was routed by the value of age.
use bytes::{BufMut, BytesMut};
use pgcat::pool::PoolSettings;
use pgcat::query_router::QueryRouter;
use pgcat::sharding::{Sharder, ShardingFunction};

fn simple_query(q: &str) -> BytesMut {
    let mut m = BytesMut::new();
    m.put_u8(b'Q');
    m.put_i32(q.len() as i32 + 5);
    m.put_slice(q.as_bytes());
    m.put_u8(0);
    m
}

/// Bind of the unnamed statement; every parameter is (format, Some(bytes)) or (format, None) for NULL.
fn bind(params: &[(i16, Option<&[u8]>)]) -> BytesMut {
    let mut payload = BytesMut::new();
    payload.put_u8(0); // portal
    payload.put_u8(0); // statement
    payload.put_i16(params.len() as i16);
    for (format, _) in params {
        payload.put_i16(*format);
    }
    payload.put_i16(params.len() as i16);
    for (_, value) in params {
        match value {
            Some(v) => {
                payload.put_i32(v.len() as i32);
                payload.put_slice(v);
            }
            None => payload.put_i32(-1),
        }
    }
    payload.put_i16(0);
    let mut m = BytesMut::new();
    m.put_u8(b'B');
    m.put_i32(payload.len() as i32 + 4);
    m.put_slice(&payload);
    m
}

fn router() -> QueryRouter {
    let settings = PoolSettings {
        shards: 5,
        sharding_function: ShardingFunction::PgBigintHash,
        automatic_sharding_key: Some("data.id".to_string()),
        query_parser_enabled: true,
        query_parser_read_write_splitting: true,
        ..Default::default()
    };
    let mut qr = QueryRouter::new();
    qr.update_pool_settings(&settings);
    qr
}

fn route(sql: &str, b: &BytesMut) -> Result<Option<usize>, String> {
    let sql = sql.to_string();
    let b = b.clone();
    std::panic::catch_unwind(move || {
        let mut qr = router();
        qr.set_shard(None);
        let ast = qr.parse(&simple_query(&sql)).unwrap();
        qr.infer(&ast).unwrap();
        if qr.infer_shard_from_bind(&b) {
            qr.shard()
        } else {
            None
        }
    })
    .map_err(|_| "panicked".to_string())
}

#[test]
fn the_key_is_read_at_its_own_position() {
    QueryRouter::setup();
    let sharder = Sharder::new(5, ShardingFunction::PgBigintHash);
    let mut failures = vec![];
    for key in [6i64, 1, 42, -7, 1_000_000] {
        let want = Some(sharder.shard(key));
        let text = key.to_string();
        let cases: Vec<(&str, BytesMut)> = vec![
            // control: the key alone
            ("SELECT * FROM data WHERE id = $1", bind(&[(0, Some(text.as_bytes()))])),
            // D23: another parameter comes first
            ("SELECT * FROM data WHERE name LIKE $1 AND id = $2", bind(&[(0, Some(b"bob")), (0, Some(text.as_bytes()))])),
            ("SELECT * FROM data WHERE name LIKE $1 AND id = $2", bind(&[(0, Some(b"a much longer pattern %")), (1, Some(&key.to_be_bytes()))])),
            ("SELECT * FROM data WHERE name LIKE $1 AND id = $2", bind(&[(0, None), (0, Some(text.as_bytes()))])),
            // D24: the other parameter is compared with `=`, too
            ("SELECT * FROM data WHERE name = $1 AND id = $2", bind(&[(0, Some(b"1")), (0, Some(text.as_bytes()))])),
            ("SELECT * FROM data WHERE id = $2 AND age = $1", bind(&[(0, Some(b"33")), (0, Some(text.as_bytes()))])),
        ];
        for (sql, b) in cases {
            let got = route(sql, &b);
            if got != Ok(want) {
                failures.push(format!("key {key}: `{sql}` routed to {got:?}, PostgreSQL's partition is {want:?}"));
            }
        }
    }
    // D24: a statement that does not mention the key column is not routed by some other column's value
    let got = route("SELECT * FROM data WHERE age = $1", &bind(&[(0, Some(b"6"))]));
    if got != Ok(None) {
        failures.push(format!("`WHERE age = $1` (no sharding key in the statement) was routed to {got:?}"));
    }
    assert!(failures.is_empty(), "{} mis-routed statements:\n{}", failures.len(), failures.join("\n"));
}

//! D49 (C06): key-parameter positions of a statement that was parsed but never bound are applied to the next statement.
//!
//! With automatic_sharding_key, QueryRouter::infer records which parameters of a statement are equated with
//! the key; infer_shard_from_bind uses and then empties that list. infer itself only ever added to it. After
//! `Parse(.. WHERE id = $1) / Describe / Sync` - how drivers prepare a statement - position 1 stays behind,
//! and the Bind of the next statement (`WHERE v = $1 AND id = $2`) takes $1 for a key as well: two candidate
//! shards, the statement is not routed and runs on whatever shard was selected before.
//!
//!   cargo test --offline --test d49_c06_stale_placeholders

use bytes::{BufMut, BytesMut};
use pgcat::messages::simple_query;
use pgcat::pool::PoolSettings;
use pgcat::query_router::QueryRouter;
use pgcat::sharding::{Sharder, ShardingFunction};
use regex::Regex;

fn settings(shards: usize) -> PoolSettings {
    PoolSettings {
        shards,
        db: "c06_side".to_string(),
        query_parser_enabled: true,
        query_parser_read_write_splitting: true,
        automatic_sharding_key: Some("data.id".to_string()),
        sharding_function: ShardingFunction::PgBigintHash,
        sharding_key_regex: Some(Regex::new(r"/\* sharding_key: (-?\d+) \*/").unwrap()),
        shard_id_regex: Some(Regex::new(r"/\* shard_id: (\d+) \*/").unwrap()),
        ..PoolSettings::default()
    }
}

fn router(s: &PoolSettings) -> QueryRouter {
    QueryRouter::setup();
    let mut qr = QueryRouter::new();
    qr.update_pool_settings(s);
    qr
}

fn bind_text(values: &[&str]) -> BytesMut {
    let mut payload = BytesMut::new();
    payload.put_u8(0);
    payload.put_u8(0);
    payload.put_i16(0); // all text
    payload.put_i16(values.len() as i16);
    for v in values {
        payload.put_i32(v.len() as i32);
        payload.put_slice(v.as_bytes());
    }
    payload.put_i16(0);
    let mut bind = BytesMut::new();
    bind.put_u8(b'B');
    bind.put_i32(payload.len() as i32 + 4);
    bind.put(payload);
    bind
}

/// D49: a Parse that is never bound (prepare only: Parse/Describe/Sync) leaves its placeholder
/// positions behind; the next statement's Bind takes a non-key parameter for a key.
#[test]
fn sf2_placeholders_of_an_unbound_parse_do_not_leak_into_the_next_statement() {
    let s = settings(3);
    let sharder = Sharder::new(3, ShardingFunction::PgBigintHash);
    let mut qr = router(&s);
    // prepare only
    let ast = qr.parse(&simple_query("SELECT * FROM data WHERE id = $1")).unwrap();
    qr.infer(&ast).unwrap();
    // next statement: $1 is not the key, $2 is
    let ast = qr
        .parse(&simple_query("SELECT * FROM data WHERE v = $1 AND id = $2"))
        .unwrap();
    qr.infer(&ast).unwrap();
    let routed = qr.infer_shard_from_bind(&bind_text(&["6", "5"]));
    assert!(routed, "Bind(v=6, id=5) is not routed at all");
    assert_eq!(qr.shard(), Some(sharder.shard(5)));
}


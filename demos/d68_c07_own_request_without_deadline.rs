//! D68 (C07) - KNOWN FINDING, not repaired: a server that hangs while pgcat talks to it on its own behalf blocks the
//! client for ever, whatever statement_timeout says.
//!
//! The replies a client waits for are read under `timeout(user.statement_timeout)`; a server that stops answering is
//! noticed, banned, and the client gets an error. But right after the checkout pgcat runs statements of its own -
//! `SET application_name TO ..` etc. in sync_parameters, `RESET ALL` / `ROLLBACK` in checkin_cleanup, Parse / Close for
//! the statement cache - and those awaits have no deadline at all. A server that hangs (no RST: a stopped process, a
//! dropped route) between two statements is never detected when the next thing pgcat sends is one of those: the
//! client waits until it gives up on its own, the connection stays checked out, the server is never banned.
//!
//! The fake backend answers everything until it is told to play dead; from then on it reads and says nothing.
//!   cargo test --offline --test d68_c07_own_request_without_deadline

use bytes::{Buf, BufMut, BytesMut};
use parking_lot::Mutex;
use std::collections::HashMap;
use std::io::Write;
use std::sync::Arc;
use std::time::Duration;
use tokio::io::{AsyncReadExt, AsyncWriteExt};
use tokio::net::{TcpListener, TcpStream};

// ---------------------------------------------------------------------------
// wire helpers
// ---------------------------------------------------------------------------

fn cstr(buf: &mut BytesMut, s: &str) {
    buf.put_slice(s.as_bytes());
    buf.put_u8(0);
}

fn msg(code: u8, body: &[u8]) -> BytesMut {
    let mut m = BytesMut::new();
    m.put_u8(code);
    m.put_i32(body.len() as i32 + 4);
    m.put_slice(body);
    m
}

fn read_cstr(buf: &mut &[u8]) -> String {
    let end = buf.iter().position(|b| *b == 0).expect("nul terminator");
    let s = String::from_utf8_lossy(&buf[..end]).to_string();
    buf.advance(end + 1);
    s
}

async fn read_msg(stream: &mut TcpStream) -> Option<(u8, Vec<u8>)> {
    let code = stream.read_u8().await.ok()?;
    let len = stream.read_i32().await.ok()?;
    let mut body = vec![0u8; len as usize - 4];
    stream.read_exact(&mut body).await.ok()?;
    Some((code, body))
}

// ---------------------------------------------------------------------------
// fake PostgreSQL backend: logs every Query, tracks BEGIN / COMMIT / ROLLBACK
// ---------------------------------------------------------------------------

static HUNG: std::sync::atomic::AtomicBool = std::sync::atomic::AtomicBool::new(false);

#[derive(Default)]
struct BackendLog {
    trace: Vec<String>,
    queries: Vec<String>,
}

async fn backend_connection(mut stream: TcpStream, conn_id: usize, log: Arc<Mutex<BackendLog>>) {
    loop {
        let len = match stream.read_i32().await {
            Ok(len) => len,
            Err(_) => return,
        };
        let mut body = vec![0u8; len as usize - 4];
        if stream.read_exact(&mut body).await.is_err() {
            return;
        }
        match (&body[..4]).get_i32() {
            80877103 => {
                let _ = stream.write_all(b"N").await;
                continue;
            }
            80877102 => return,
            _ => break,
        }
    }
    let mut out = BytesMut::new();
    out.put(msg(b'R', &0i32.to_be_bytes()));
    for (k, v) in [
        ("server_version", "14.5"),
        ("server_encoding", "UTF8"),
        ("client_encoding", "UTF8"),
        ("DateStyle", "ISO, MDY"),
        ("TimeZone", "Etc/UTC"),
        ("standard_conforming_strings", "on"),
        ("application_name", "pgcat"),
        ("integer_datetimes", "on"),
    ] {
        let mut b = BytesMut::new();
        cstr(&mut b, k);
        cstr(&mut b, v);
        out.put(msg(b'S', &b));
    }
    let mut k = BytesMut::new();
    k.put_i32(4242 + conn_id as i32);
    k.put_i32(99);
    out.put(msg(b'K', &k));
    out.put(msg(b'Z', b"I"));
    if stream.write_all(&out).await.is_err() {
        return;
    }
    let mut status = b'I';
    while let Some((code, body)) = read_msg(&mut stream).await {
        if HUNG.load(std::sync::atomic::Ordering::SeqCst) {
            // a hung server: the bytes are taken by the kernel, nobody answers
            log.lock().trace.push(format!("[backend #{}] (hung) received '{}' and says nothing", conn_id, code as char));
            continue;
        }
        let mut b: &[u8] = &body;
        let mut out = BytesMut::new();
        match code {
            b'X' => return,
            b'Q' => {
                let query = read_cstr(&mut b);
                log.lock().trace.push(format!("[backend #{}] Query {:?}", conn_id, query));
                log.lock().queries.push(query.clone());
                // one CommandComplete per statement of the query, the tag is the statement's first word
                for stmt in query.split(';').map(|s| s.trim()).filter(|s| !s.is_empty()) {
                    let upper = stmt.to_uppercase();
                    if upper.starts_with("BEGIN") {
                        status = b'T';
                    } else if upper.starts_with("COMMIT") || upper.starts_with("ROLLBACK") {
                        status = b'I';
                    }
                    let tag = upper.split_whitespace().next().unwrap_or("OK").to_string();
                    let mut t = BytesMut::new();
                    cstr(&mut t, if tag == "SELECT" { "SELECT 1" } else { &tag });
                    out.put(msg(b'C', &t));
                }
                out.put(msg(b'Z', &[status]));
            }
            other => log.lock().trace.push(format!("[backend #{}] message '{}'", conn_id, other as char)),
        }
        if !out.is_empty() && stream.write_all(&out).await.is_err() {
            return;
        }
    }
}

async fn start_fake_backend(log: Arc<Mutex<BackendLog>>) -> u16 {
    let listener = TcpListener::bind("127.0.0.1:0").await.unwrap();
    let port = listener.local_addr().unwrap().port();
    tokio::spawn(async move {
        let mut next_id = 0usize;
        loop {
            let (stream, _) = match listener.accept().await {
                Ok(s) => s,
                Err(_) => return,
            };
            let log = log.clone();
            let id = next_id;
            next_id += 1;
            tokio::spawn(backend_connection(stream, id, log));
        }
    });
    port
}

// ---------------------------------------------------------------------------
// pgcat in-process
// ---------------------------------------------------------------------------

async fn start_pgcat(backend_port: u16, cache_size: usize) -> u16 {
    let toml = format!(
        r#"
[general]
host = "127.0.0.1"
port = 6432
admin_username = "admin"
admin_password = "admin"
validate_config = false
connect_timeout = 2000
idle_timeout = 600000
healthcheck_timeout = 2000
healthcheck_delay = 600000
ban_time = 1
worker_threads = 2

[pools.db]
pool_mode = "transaction"
prepared_statements_cache_size = {}
query_parser_enabled = false

[pools.db.users.0]
username = "u"
password = "p"
auth_type = "trust"
pool_size = 1
min_pool_size = 0
statement_timeout = 500

[pools.db.shards.0]
servers = [["127.0.0.1", {}, "primary"]]
database = "db"
"#,
        cache_size, backend_port
    );

    let path = std::env::temp_dir().join(format!("c08_pgcat_{}.toml", std::process::id()));
    std::fs::File::create(&path)
        .unwrap()
        .write_all(toml.as_bytes())
        .unwrap();

    pgcat::config::parse(path.to_str().unwrap())
        .await
        .expect("config parses");

    let client_server_map: pgcat::pool::ClientServerMap = Arc::new(Mutex::new(HashMap::new()));
    pgcat::pool::ConnectionPool::from_config(client_server_map.clone())
        .await
        .expect("pool builds");

    let listener = TcpListener::bind("127.0.0.1:0").await.unwrap();
    let port = listener.local_addr().unwrap().port();

    let (shutdown_tx, _) = tokio::sync::broadcast::channel::<()>(1);
    let (drain_tx, mut drain_rx) = tokio::sync::mpsc::channel::<i32>(2048);
    tokio::spawn(async move { while drain_rx.recv().await.is_some() {} });

    tokio::spawn(async move {
        // Keep the sender alive for as long as the listener lives.
        let shutdown_tx = shutdown_tx;
        loop {
            let (stream, _) = match listener.accept().await {
                Ok(s) => s,
                Err(_) => return,
            };
            let map = client_server_map.clone();
            let shutdown_rx = shutdown_tx.subscribe();
            let drain_tx = drain_tx.clone();
            tokio::spawn(async move {
                let _ = pgcat::client::client_entrypoint(
                    stream,
                    map,
                    shutdown_rx,
                    drain_tx,
                    false,
                    None,
                    false,
                )
                .await;
            });
        }
    });

    port
}

// ---------------------------------------------------------------------------
// frontend (the application) helpers
// ---------------------------------------------------------------------------

fn fe_parse(name: &str, query: &str) -> BytesMut {
    let mut b = BytesMut::new();
    cstr(&mut b, name);
    cstr(&mut b, query);
    b.put_i16(0);
    msg(b'P', &b)
}

fn fe_bind(portal: &str, statement: &str) -> BytesMut {
    let mut b = BytesMut::new();
    cstr(&mut b, portal);
    cstr(&mut b, statement);
    b.put_i16(0); // parameter format codes
    b.put_i16(0); // parameter values
    b.put_i16(0); // result format codes
    msg(b'B', &b)
}

fn fe_execute(portal: &str) -> BytesMut {
    let mut b = BytesMut::new();
    cstr(&mut b, portal);
    b.put_i32(0);
    msg(b'E', &b)
}

fn fe_sync() -> BytesMut {
    msg(b'S', b"")
}

/// What the application sees in answer to one batch (up to ReadyForQuery).
#[derive(Debug, Default)]
struct Reply {
    codes: String,
    ran: Vec<String>,
    errors: Vec<String>,
}

struct App {
    stream: TcpStream,
}

impl App {
    async fn connect_as(port: u16, application_name: &str) -> App {
        let mut stream = TcpStream::connect(("127.0.0.1", port)).await.unwrap();
        let mut body = BytesMut::new();
        body.put_i32(196608);
        cstr(&mut body, "user");
        cstr(&mut body, "u");
        cstr(&mut body, "database");
        cstr(&mut body, "db");
        cstr(&mut body, "application_name");
        cstr(&mut body, application_name);
        body.put_u8(0);
        let mut startup = BytesMut::new();
        startup.put_i32(body.len() as i32 + 4);
        startup.put(body);
        stream.write_all(&startup).await.unwrap();
        let mut app = App { stream };
        let reply = app.read_reply().await;
        assert!(reply.errors.is_empty(), "could not log in through pgcat: {:?}", reply);
        app
    }

    #[allow(dead_code)]
    async fn connect(port: u16) -> App {
        let mut stream = TcpStream::connect(("127.0.0.1", port)).await.unwrap();
        let mut body = BytesMut::new();
        body.put_i32(196608);
        cstr(&mut body, "user");
        cstr(&mut body, "u");
        cstr(&mut body, "database");
        cstr(&mut body, "db");
        body.put_u8(0);
        let mut startup = BytesMut::new();
        startup.put_i32(body.len() as i32 + 4);
        startup.put(body);
        stream.write_all(&startup).await.unwrap();

        let mut app = App { stream };
        let reply = app.read_reply().await;
        assert!(
            reply.errors.is_empty(),
            "could not log in through pgcat: {:?}",
            reply
        );
        app
    }

    async fn read_reply(&mut self) -> Reply {
        let mut reply = Reply::default();
        loop {
            let (code, body) = tokio::time::timeout(Duration::from_secs(10), read_msg(&mut self.stream))
                .await
                .expect("timed out waiting for pgcat")
                .expect("pgcat closed the connection");
            reply.codes.push(code as char);
            match code {
                b'C' => {
                    let mut b: &[u8] = &body;
                    let tag = read_cstr(&mut b);
                    if let Some(q) = tag.strip_prefix("RAN ") {
                        reply.ran.push(q.to_string());
                    }
                }
                b'E' => {
                    let text = String::from_utf8_lossy(&body).replace('\0', " ");
                    reply.errors.push(text);
                }
                b'Z' => return reply,
                _ => (),
            }
        }
    }

    async fn send_simple(&mut self, sql: &str) {
        let mut b = BytesMut::new();
        cstr(&mut b, sql);
        self.stream.write_all(&msg(b'Q', &b)).await.unwrap();
    }

    /// message codes received until ReadyForQuery, or until nothing arrives for a second
    async fn codes_until_ready(&mut self) -> (String, Vec<String>) {
        let mut codes = String::new();
        let mut rows = vec![];
        loop {
            match tokio::time::timeout(Duration::from_secs(1), read_msg(&mut self.stream)).await {
                Ok(Some((code, body))) => {
                    codes.push(code as char);
                    if code == b'D' {
                        rows.push(String::from_utf8_lossy(&body[6..]).to_string());
                    }
                    if code == b'Z' {
                        return (codes, rows);
                    }
                }
                _ => return (codes, rows),
            }
        }
    }

    async fn batch(&mut self, messages: &[BytesMut]) -> Reply {
        let mut all = BytesMut::new();
        for m in messages {
            all.put_slice(m);
        }
        self.stream.write_all(&all).await.unwrap();
        self.read_reply().await
    }
}

// ---------------------------------------------------------------------------
// the scenario
// ---------------------------------------------------------------------------

#[tokio::test(flavor = "multi_thread", worker_threads = 2)]
async fn a_hung_server_is_noticed_within_the_statement_timeout() {
    let log = Arc::new(Mutex::new(BackendLog::default()));
    let backend_port = start_fake_backend(log.clone()).await;
    let pgcat_port = start_pgcat(backend_port, 0).await; // pool_size = 1, statement_timeout = 500 ms (see start_pgcat)

    // client A warms the connection up
    let mut a = App::connect_as(pgcat_port, "app_a").await;
    a.send_simple("SELECT 1").await;
    let (codes, _) = a.codes_until_ready().await;
    assert_eq!(codes, "CZ");
    drop(a);
    tokio::time::sleep(Duration::from_millis(200)).await;

    // the server hangs
    HUNG.store(true, std::sync::atomic::Ordering::SeqCst);

    // client B has another application_name: the first thing pgcat sends for it is its own SET
    let mut b = App::connect_as(pgcat_port, "app_b").await;
    let started = std::time::Instant::now();
    b.send_simple("SELECT 2").await;
    let answered = tokio::time::timeout(Duration::from_secs(5), read_msg(&mut b.stream)).await;
    let trace = log.lock().trace.join("\n");
    assert!(
        answered.is_ok(),
        "C07: statement_timeout is 500 ms; 5 s after the client sent its statement pgcat has neither answered nor noticed that the server hangs (waited {:?})\n{}",
        started.elapsed(),
        trace
    );
}

//! D78 (C04): one panic inside ServerPool::connect costs the pool a slot for good.
//!
//! bb8 runs `connect()` in a task it spawns and counts the attempt against `max_size` until the call returns. Server::startup,
//! which connect() awaits, parses what the server sends with `unwrap()`s, slices and unchecked reads; a reply it does not expect -
//! here a ParameterStatus whose value lacks its terminating NUL - panics. The panic unwinds through connect(), bb8 never gets the
//! attempt back: `pending_conns` stays raised. With `pool_size = 2` one such reply halves the pool, two kill it: clients are
//! refused (`AllServersDown`) although the server has long been healthy again, until pgcat is restarted.
//!
//! Harness: the fake backend of a round-9 seeding agent (refusing phase, then healthy).
//!   cargo test --offline --test d78_c04_panicking_startup_keeps_the_slot

use std::sync::atomic::{AtomicBool, AtomicUsize, Ordering};
use std::sync::Arc;
use std::time::Duration;

use tokio::io::{AsyncReadExt, AsyncWriteExt};
use tokio::net::{TcpListener, TcpStream};

use pgcat::pool::{get_pool, ClientServerMap, ConnectionPool};
use pgcat::stats::ClientStats;

const POOL_SIZE: u32 = 2;

struct Backend {
    refusing: AtomicBool,
    refused: AtomicUsize,
    live: AtomicUsize,
    max_live: AtomicUsize,
}

fn msg(code: u8, body: &[u8]) -> Vec<u8> {
    let mut out = vec![code];
    out.extend_from_slice(&((body.len() as i32 + 4).to_be_bytes()));
    out.extend_from_slice(body);
    out
}

fn param(key: &str, value: &str) -> Vec<u8> {
    let mut body = Vec::new();
    body.extend_from_slice(key.as_bytes());
    body.push(0);
    body.extend_from_slice(value.as_bytes());
    body.push(0);
    msg(b'S', &body)
}

async fn serve(mut socket: TcpStream, backend: Arc<Backend>) {
    // Startup packet: length, then the rest.
    let len = match socket.read_i32().await {
        Ok(len) => len,
        Err(_) => return,
    };
    let mut startup = vec![0u8; len as usize - 4];
    if socket.read_exact(&mut startup).await.is_err() {
        return;
    }

    if backend.refusing.load(Ordering::SeqCst) {
        backend.refused.fetch_add(1, Ordering::SeqCst);
        // AuthenticationOk, then a ParameterStatus whose value lacks its terminator (a proxy in front of the
        // database that truncates, a server that is not quite PostgreSQL): Server::startup panics on it.
        let mut out = msg(b'R', &0i32.to_be_bytes());
        out.extend_from_slice(&msg(b'S', b"server_version\014.5"));
        let _ = socket.write_all(&out).await;
        let _ = socket.shutdown().await;
        return;
    }

    let live = backend.live.fetch_add(1, Ordering::SeqCst) + 1;
    backend.max_live.fetch_max(live, Ordering::SeqCst);

    let mut out = Vec::new();
    out.extend(msg(b'R', &0i32.to_be_bytes()));
    out.extend(param("server_version", "16.3"));
    out.extend(param("server_encoding", "UTF8"));
    out.extend(param("client_encoding", "UTF8"));
    let mut key = Vec::new();
    key.extend_from_slice(&4242i32.to_be_bytes());
    key.extend_from_slice(&1717i32.to_be_bytes());
    out.extend(msg(b'K', &key));
    out.extend(msg(b'Z', b"I"));

    if socket.write_all(&out).await.is_ok() {
        loop {
            let code = match socket.read_u8().await {
                Ok(code) => code,
                Err(_) => break,
            };
            let len = match socket.read_i32().await {
                Ok(len) => len,
                Err(_) => break,
            };
            let mut body = vec![0u8; len as usize - 4];
            if socket.read_exact(&mut body).await.is_err() {
                break;
            }
            match code {
                b'Q' => {
                    let mut out = msg(b'C', b"SELECT 1\0");
                    out.extend(msg(b'Z', b"I"));
                    if socket.write_all(&out).await.is_err() {
                        break;
                    }
                }
                b'X' => break,
                _ => (),
            }
        }
    }

    backend.live.fetch_sub(1, Ordering::SeqCst);
}

#[tokio::test(flavor = "multi_thread", worker_threads = 2)]
async fn capacity_is_back_after_the_backend_refused_connections() {
    let backend = Arc::new(Backend {
        refusing: AtomicBool::new(true),
        refused: AtomicUsize::new(0),
        live: AtomicUsize::new(0),
        max_live: AtomicUsize::new(0),
    });

    let listener = TcpListener::bind("127.0.0.1:0").await.unwrap();
    let port = listener.local_addr().unwrap().port();
    {
        let backend = backend.clone();
        tokio::spawn(async move {
            loop {
                let (socket, _) = match listener.accept().await {
                    Ok(accepted) => accepted,
                    Err(_) => break,
                };
                tokio::spawn(serve(socket, backend.clone()));
            }
        });
    }

    let config = format!(
        r#"
[general]
host = "127.0.0.1"
port = 6432
admin_username = "admin"
admin_password = "admin"
connect_timeout = 1000
validate_config = false

[pools.db]
pool_mode = "transaction"

[pools.db.users.0]
username = "app"
password = "app"
pool_size = {POOL_SIZE}

[pools.db.shards.0]
servers = [["127.0.0.1", {port}, "primary"]]
database = "db"
"#
    );
    let path = std::env::temp_dir().join(format!("d78_startup_{}.toml", std::process::id()));
    std::fs::write(&path, config).unwrap();

    pgcat::config::parse(path.to_str().unwrap()).await.unwrap();
    ConnectionPool::from_config(ClientServerMap::default())
        .await
        .unwrap();
    let pool = get_pool("db", "app").expect("pool");
    let stats = ClientStats::default();

    // Phase 1: the backend refuses every startup. The client gets a pool error after the
    // connect timeout; that is the specified behaviour.
    let refused = pool.get(Some(0), None, &stats).await;
    assert!(refused.is_err(), "the backend refuses connections");
    assert!(backend.refused.load(Ordering::SeqCst) >= 1);

    // Phase 2: the backend is back. Give a connection attempt that is still under way the
    // time to end.
    backend.refusing.store(false, Ordering::SeqCst);
    tokio::time::sleep(Duration::from_millis(1500)).await;

    // The whole capacity has to be there: pool_size clients at once, each served.
    let mut held = Vec::new();
    for n in 0..POOL_SIZE {
        match pool.get(Some(0), None, &stats).await {
            Ok((mut conn, _address)) => {
                conn.query("SELECT 1").await.expect("query");
                held.push(conn);
            }
            Err(err) => panic!(
                "checkout {} of {} failed although the backend accepts connections again: {:?}; \
                 bb8 state: {:?}; connections open at the backend: {}",
                n + 1,
                POOL_SIZE,
                err,
                pool.pool_state(0, 0),
                backend.live.load(Ordering::SeqCst),
            ),
        }
    }

    let state = pool.pool_state(0, 0);
    assert_eq!(state.connections, POOL_SIZE);
    assert!(backend.max_live.load(Ordering::SeqCst) <= POOL_SIZE as usize);

    drop(held);
    let state = pool.pool_state(0, 0);
    assert_eq!(state.idle_connections, state.connections, "nothing left in use");

    let _ = std::fs::remove_file(&path);
}

//! D36 (C17): the process never exits although every client has left *and* shutdown_timeout has passed.
//!
//! src/main.rs: the accept loop is the only receiver of the exit channel (capacity 1) and, in its drain
//! arm, also *awaits* `exit_tx.send(())` when the client count reaches 0. If the shutdown_timeout timer
//! has already put its `()` into the channel and `tokio::select!` happens to take the drain arm first
//! (both arms are ready; select! starts at a random branch), the loop waits for room in a channel that
//! only the loop itself can drain: it never polls `exit_rx` again, and the process stays up for ever.
//! The same holds for `drain_tx.send(0).await` in the SIGINT arm (capacity 2048).
//!
//! The schedule is made likely here by keeping the loop busy for a moment (a SIGHUP reload whose new
//! pool has `min_pool_size = 1` and `validate_config = true`, against a backend that answers the startup
//! slowly) while the timer fires and the last client leaves; when the loop resumes, both the exit and
//! the drain arm are ready and select! takes the drain arm with probability 1/6. The test runs the real
//! `pgcat` binary ATTEMPTS times (in parallel) and requires every one of them to exit.
//!
//!   cargo test --offline --test d36_c17_exit_channel_self_send -- --nocapture
//! Expected before the repair: FAILS (some of the processes hang). After: passes.

use std::io::Write as _;
use std::process::{Command, Stdio};
use std::sync::atomic::{AtomicBool, Ordering};
use std::sync::Arc;
use std::time::{Duration, Instant};

use bytes::{BufMut, BytesMut};
use tokio::io::{AsyncReadExt, AsyncWriteExt};
use tokio::net::{TcpListener, TcpStream};
use tokio::time::{sleep, timeout};

const ATTEMPTS: usize = 48;

fn backend_msg(code: u8, body: &[u8]) -> BytesMut {
    let mut m = BytesMut::new();
    m.put_u8(code);
    m.put_i32(4 + body.len() as i32);
    m.put_slice(body);
    m
}

fn parameter_status(key: &str, value: &str) -> BytesMut {
    let mut body = Vec::new();
    body.extend_from_slice(key.as_bytes());
    body.push(0);
    body.extend_from_slice(value.as_bytes());
    body.push(0);
    backend_msg(b'S', &body)
}

async fn fake_backend_connection(mut s: TcpStream, stall: Arc<AtomicBool>) -> std::io::Result<()> {
    let len = s.read_i32().await?;
    let mut startup = vec![0u8; len as usize - 4];
    s.read_exact(&mut startup).await?;
    if stall.load(Ordering::SeqCst) {
        sleep(Duration::from_millis(2500)).await;
    }

    let mut hello = BytesMut::new();
    hello.put(backend_msg(b'R', &0i32.to_be_bytes()));
    hello.put(parameter_status("server_version", "14.5"));
    hello.put(parameter_status("client_encoding", "UTF8"));
    hello.put(parameter_status("DateStyle", "ISO, MDY"));
    hello.put(parameter_status("TimeZone", "Etc/UTC"));
    hello.put(parameter_status("standard_conforming_strings", "on"));
    hello.put(parameter_status("application_name", "pgcat"));
    let mut key = Vec::new();
    key.extend_from_slice(&4242i32.to_be_bytes());
    key.extend_from_slice(&777i32.to_be_bytes());
    hello.put(backend_msg(b'K', &key));
    hello.put(backend_msg(b'Z', b"I"));
    s.write_all(&hello).await?;

    let mut status = b'I';
    loop {
        let code = s.read_u8().await?;
        let len = s.read_i32().await?;
        let mut body = vec![0u8; len as usize - 4];
        s.read_exact(&mut body).await?;
        match code {
            b'Q' => {
                let sql = String::from_utf8_lossy(&body).to_uppercase();
                if sql.starts_with("BEGIN") {
                    status = b'T';
                } else if sql.starts_with("COMMIT") || sql.starts_with("ROLLBACK") {
                    status = b'I';
                }
                let mut reply = BytesMut::new();
                reply.put(backend_msg(b'C', b"SELECT 1\0"));
                reply.put(backend_msg(b'Z', &[status]));
                s.write_all(&reply).await?;
            }
            b'X' => return Ok(()),
            _ => (),
        }
    }
}

async fn fake_backend(stall: Arc<AtomicBool>) -> u16 {
    let listener = TcpListener::bind("127.0.0.1:0").await.unwrap();
    let port = listener.local_addr().unwrap().port();
    tokio::spawn(async move {
        loop {
            if let Ok((s, _)) = listener.accept().await {
                let stall = stall.clone();
                tokio::spawn(async move {
                    let _ = fake_backend_connection(s, stall).await;
                });
            }
        }
    });
    port
}

fn config(pgcat_port: u16, backend_port: u16, reload: bool) -> String {
    let mut c = format!(
        r#"
[general]
host = "127.0.0.1"
port = {pgcat_port}
admin_username = "admin"
admin_password = "admin"
validate_config = {reload}
shutdown_timeout = 1200
connect_timeout = 10000
worker_threads = 2
enable_prometheus_exporter = false

[pools.db]
pool_mode = "transaction"

[pools.db.users.0]
username = "app"
password = "app"
auth_type = "trust"
pool_size = 5

[pools.db.shards.0]
servers = [["127.0.0.1", {backend_port}, "primary"]]
database = "postgres"
"#
    );
    if reload {
        c.push_str(&format!(
            r#"
[pools.db2]
pool_mode = "transaction"

[pools.db2.users.0]
username = "app"
password = "app"
auth_type = "trust"
pool_size = 5
min_pool_size = 1

[pools.db2.shards.0]
servers = [["127.0.0.1", {backend_port}, "primary"]]
database = "postgres"
"#
        ));
    }
    c
}

async fn until_ready(s: &mut TcpStream) -> std::io::Result<Vec<char>> {
    let mut seen = Vec::new();
    loop {
        let code = s.read_u8().await?;
        let len = s.read_i32().await?;
        let mut body = vec![0u8; len as usize - 4];
        s.read_exact(&mut body).await?;
        seen.push(code as char);
        if code == b'Z' {
            return Ok(seen);
        }
    }
}

async fn connect(port: u16) -> TcpStream {
    let mut s = loop {
        match TcpStream::connect(("127.0.0.1", port)).await {
            Ok(s) => break s,
            Err(_) => sleep(Duration::from_millis(50)).await,
        }
    };
    let mut body = BytesMut::new();
    body.put_i32(196608);
    for kv in ["user", "app", "database", "db"] {
        body.put_slice(kv.as_bytes());
        body.put_u8(0);
    }
    body.put_u8(0);
    let mut startup = BytesMut::new();
    startup.put_i32(4 + body.len() as i32);
    startup.put(body);
    s.write_all(&startup).await.unwrap();
    timeout(Duration::from_secs(10), until_ready(&mut s))
        .await
        .expect("startup timed out")
        .expect("startup failed");
    s
}

async fn query(s: &mut TcpStream, sql: &str) -> Vec<char> {
    let mut m = BytesMut::new();
    m.put_u8(b'Q');
    m.put_i32(4 + sql.len() as i32 + 1);
    m.put_slice(sql.as_bytes());
    m.put_u8(0);
    s.write_all(&m).await.unwrap();
    timeout(Duration::from_secs(10), until_ready(s))
        .await
        .expect("query timed out")
        .expect("query failed")
}

fn signal(pid: u32, sig: &str) {
    let _ = Command::new("kill").arg(sig).arg(pid.to_string()).status();
}

/// One graceful shutdown of a real pgcat process; true if the process exited.
async fn attempt(n: usize) -> bool {
    let stall = Arc::new(AtomicBool::new(false));
    let backend_port = fake_backend(stall.clone()).await;
    let pgcat_port = {
        let l = std::net::TcpListener::bind("127.0.0.1:0").unwrap();
        l.local_addr().unwrap().port()
    };
    let path = std::env::temp_dir().join(format!("d36_pgcat_{}_{}.toml", std::process::id(), n));
    std::fs::write(&path, config(pgcat_port, backend_port, false)).unwrap();

    let mut child = Command::new(env!("CARGO_BIN_EXE_pgcat"))
        .arg(path.to_str().unwrap())
        .env("RUST_LOG", "error")
        .stdout(Stdio::null())
        .stderr(Stdio::null())
        .spawn()
        .expect("pgcat binary");
    let pid = child.id();

    // one client inside a transaction when SIGINT arrives
    let mut a = connect(pgcat_port).await;
    assert_eq!(query(&mut a, "BEGIN").await.last(), Some(&'Z'));

    signal(pid, "-INT"); // graceful shutdown starts; the 1.2 s timer is armed
    sleep(Duration::from_millis(200)).await;

    // keep the accept loop busy for ~2.5 s: reload with a new pool that must connect before from_config returns
    stall.store(true, Ordering::SeqCst);
    let mut f = std::fs::File::create(&path).unwrap();
    f.write_all(config(pgcat_port, backend_port, true).as_bytes()).unwrap();
    drop(f);
    signal(pid, "-HUP");

    // meanwhile the timer fires (t = 1.2 s) and the last client finishes and is disconnected (t ~ 1.8 s)
    sleep(Duration::from_millis(1600)).await;
    let _ = query(&mut a, "COMMIT").await;
    let mut rest = Vec::new();
    let _ = timeout(Duration::from_secs(2), a.read_to_end(&mut rest)).await;
    drop(a);

    // every client has left and shutdown_timeout has passed: the process must exit
    let deadline = Instant::now() + Duration::from_secs(8);
    let exited = loop {
        if let Ok(Some(_)) = child.try_wait() {
            break true;
        }
        if Instant::now() > deadline {
            break false;
        }
        sleep(Duration::from_millis(100)).await;
    };
    if !exited {
        let _ = child.kill();
        let _ = child.wait();
    }
    let _ = std::fs::remove_file(&path);
    exited
}

#[tokio::test(flavor = "multi_thread", worker_threads = 8)]
async fn graceful_shutdown_always_ends_the_process() {
    let mut hung = 0;
    let mut done = 0;
    for chunk in 0..(ATTEMPTS / 8) {
        let mut hs = Vec::new();
        for i in 0..8 {
            hs.push(tokio::spawn(attempt(chunk * 8 + i)));
        }
        for h in hs {
            done += 1;
            if !h.await.unwrap() {
                hung += 1;
            }
        }
    }
    println!("{} of {} pgcat processes were still running 8 s after the last client left and shutdown_timeout (1.2 s) had passed", hung, done);
    assert_eq!(hung, 0, "{} of {} graceful shutdowns never ended the process", hung, done);
}

//! D89 (C07): a failure reported for a replica the administrator has banned replaces the admin ban.
//!
//! `ConnectionPool::ban` inserts its entry whatever the list holds. The administrator takes a replica out of
//! service for an hour (`BAN replica-a 3600`); a client that checked the replica out before that is still in its
//! transaction, and when the replica is then stopped for the maintenance the client's statement fails:
//! `ban(.., MessageReceiveFailed, ..)` overwrites the `AdminBan(3600)` entry with a failure entry, which runs out
//! after ban_time (here 1 s) - the replica is back in rotation while the administrator believes it banned.
//! "A ban ends after ban_time (or the admin-given duration)".
//!
//! No server is needed: the pool is built with validate_config = false and nothing is checked out.
//!
//!   cargo test --offline --test d89_c07_failure_does_not_shorten_an_admin_ban

use std::collections::HashMap;
use std::sync::Arc;
use std::time::Duration;

use pgcat::pool::{get_pool, BanReason, ClientServerMap, ConnectionPool};

#[tokio::test(flavor = "multi_thread", worker_threads = 2)]
async fn a_failure_on_an_admin_banned_replica_does_not_shorten_the_ban() {
    let toml = r#"
[general]
host = "127.0.0.1"
port = 6432
admin_username = "admin"
admin_password = "admin"
validate_config = false
ban_time = 1
healthcheck_delay = 600000

[pools.db.users.0]
username = "user"
password = "pw"
pool_size = 2
pool_mode = "transaction"

[pools.db.shards.0]
servers = [
  ["replica-a.invalid", 5432, "replica"],
  ["replica-b.invalid", 5432, "replica"]
]
database = "postgres"
"#;
    let path = std::env::temp_dir().join(format!("d89_{}.toml", std::process::id()));
    std::fs::write(&path, toml).unwrap();
    pgcat::config::parse(path.to_str().unwrap()).await.unwrap();
    let map: ClientServerMap = Arc::new(parking_lot::Mutex::new(HashMap::new()));
    ConnectionPool::from_config(map).await.unwrap();
    let pool = get_pool("db", "user").expect("pool db/user");
    let replica_a = pool.get_addresses_from_host("replica-a.invalid")[0].clone();

    // the administrator takes the replica out of service for an hour ...
    pool.ban(&replica_a, BanReason::AdminBan(3600), None);
    // ... and the statement of a client that still held a connection to it fails
    pool.ban(&replica_a, BanReason::MessageReceiveFailed, None);

    // ban_time (1 s) later the replica is still out of service
    tokio::time::sleep(Duration::from_millis(1600)).await;
    assert!(
        !pool.try_unban(&replica_a).await,
        "the failure entry replaced AdminBan(3600): the ban ended after ban_time (1 s)"
    );
    assert!(pool.is_banned(&replica_a));

    // a later BAN of the administrator still replaces an earlier one, and a failure ban still bans a replica that is in service
    let replica_b = pool.get_addresses_from_host("replica-b.invalid")[0].clone();
    pool.ban(&replica_b, BanReason::FailedHealthCheck, None);
    assert!(pool.is_banned(&replica_b));
}

//! D87 (C20): the task that feeds a mirror never ends while that mirror is down.
//!
//! Every server connection of a mirrored server owns a `MirroringManager`, which spawns one task per mirror.
//! The task's loop first waits for a connection of its private pool - `pool.get().await`, outside the
//! `select!` that listens for the exit signal - and on an error goes straight back to waiting. While the mirror
//! refuses (or resets) connections the loop never reaches the `select!`: the exit signal sent when the server
//! connection is dropped is never read. Each server connection that is closed (idle_timeout, server_lifetime,
//! a ban, a reload) leaves one more task behind that dials the mirror for ever; their number only grows
//! for as long as the mirror stays down - mirroring costs the process tasks, sockets and log volume without bound
//! (reported by the seeding agents of rounds 4 to 10; numbers of the round-10 agent: 8 -> 23 attempts in three
//! seconds after the connection was dropped).
//!
//! The demonstration: a "mirror" that accepts and at once closes every connection counts the attempts. A manager
//! for it is built, told to disconnect and dropped (what `Drop for Server` does). bb8 retries inside one checkout
//! until its connection timeout (the pool's connect_timeout, 300 ms here), so attempts are compared after that
//! has lapsed: none may come in later.
//!
//!   cargo test --offline --test d87_c20_mirror_task_outlives_its_connection

use std::sync::atomic::{AtomicUsize, Ordering};
use std::sync::Arc;
use std::time::Duration;

use tokio::net::TcpListener;

use pgcat::config::{Address, User};
use pgcat::mirrors::MirroringManager;

#[tokio::test(flavor = "multi_thread", worker_threads = 2)]
async fn mirror_task_ends_with_its_server_connection() {
    let listener = TcpListener::bind("127.0.0.1:0").await.unwrap();
    let port = listener.local_addr().unwrap().port();
    let attempts = Arc::new(AtomicUsize::new(0));
    let counter = attempts.clone();
    tokio::spawn(async move {
        loop {
            if let Ok((stream, _)) = listener.accept().await {
                counter.fetch_add(1, Ordering::SeqCst);
                drop(stream); // the mirror is "down": whoever connects is hung up on
            }
        }
    });

    // the mirror's pool takes its timeouts from the configured pool of that name
    let path = std::env::temp_dir().join(format!("d87_{}.toml", std::process::id()));
    std::fs::write(
        &path,
        format!(
            r#"
[general]
host = "127.0.0.1"
port = 6432
admin_username = "admin"
admin_password = "admin"
validate_config = false

[pools.db]
pool_mode = "transaction"
connect_timeout = 300

[pools.db.users.0]
username = "user"
password = "secret"
pool_size = 1

[pools.db.shards.0]
servers = [["127.0.0.1", {}, "primary"]]
database = "db"
"#,
            port
        ),
    )
    .unwrap();
    pgcat::config::parse(path.to_str().unwrap()).await.unwrap();

    let mirror = Address {
        host: "127.0.0.1".into(),
        port,
        database: "db".into(),
        username: "user".into(),
        pool_name: "db".into(),
        ..Address::default()
    };
    let user = User {
        username: "user".into(),
        password: Some("secret".into()),
        ..User::default()
    };

    let mut manager = MirroringManager::from_addresses(user, "db".into(), vec![mirror]);
    // let the task start dialling
    tokio::time::sleep(Duration::from_millis(1500)).await;
    assert!(
        attempts.load(Ordering::SeqCst) > 0,
        "the mirror task never tried to connect"
    );

    // what Drop for Server does
    manager.disconnect();
    drop(manager);

    // bb8 keeps dialling on behalf of a checkout for its connection timeout (300 ms, and one back-off step more);
    // afterwards every further attempt is a new turn of the task's loop
    tokio::time::sleep(Duration::from_millis(2_000)).await;
    let after_timeout = attempts.load(Ordering::SeqCst);
    tokio::time::sleep(Duration::from_millis(4_000)).await;
    let later = attempts.load(Ordering::SeqCst);
    assert_eq!(
        after_timeout, later,
        "the mirror task is still dialling its mirror {} s after its server connection was dropped ({} -> {} attempts)",
        6, after_timeout, later
    );
}

// Demonstration for defect D15 (C15): copy to /repo/tests/ and run
//   cargo test --offline --test d15_c15_auth_query_guard
// A pool with auth_query_user and auth_query_password but without auth_query (its users have
// passwords, so nothing in validate() asks for auth_query) is an accepted configuration.
// Before the `fix:` commit Pool::is_auth_query_configured() tested auth_query_password twice
// and auth_query never, so AuthPassthrough::from_pool_config - called for every pool when the
// pools are built, at startup and on reload - unwrapped auth_query = None and panicked.
use pgcat::auth_passthrough::AuthPassthrough;
use pgcat::config::{Config, Pool, Shard, User};

fn config() -> Config {
    let mut c = Config::default();
    let mut p = Pool::default();
    p.shards.clear();
    p.shards.insert("0".into(), Shard::default());
    p.users.clear();
    let mut u = User::default();
    u.password = Some("x".into());
    p.users.insert("0".into(), u);
    p.auth_query = None;
    p.auth_query_user = Some("md5_auth_user".into());
    p.auth_query_password = Some("secret".into());
    c.pools.clear();
    c.pools.insert("db".into(), p);
    c
}

#[test]
fn accepted_configuration_does_not_panic_when_pools_are_built() {
    let mut c = config();
    assert!(c.validate().is_ok(), "the configuration is accepted");

    let pool = c.pools.get("db").unwrap().clone();
    let result = std::panic::catch_unwind(|| AuthPassthrough::from_pool_config(&pool).is_some());
    match result {
        Ok(configured) => assert!(
            !configured,
            "auth_query is not configured (no query), from_pool_config must say so"
        ),
        Err(_) => panic!(
            "Config::validate accepted the configuration, building the pool's AuthPassthrough panicked \
             (Option::unwrap on auth_query = None)"
        ),
    }
}

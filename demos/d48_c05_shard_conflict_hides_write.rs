//! D48 (C05): a shard conflict between two reads stops the classification of the message.
//!
//! With `automatic_sharding_key` set, QueryRouter::infer derives the shard of every statement and gives up
//! (`?`) as soon as two statements of one message point to different shards. Statements behind that point
//! are never looked at: in `SELECT .. WHERE id = 5; SELECT .. WHERE id = 6; INSERT ..` the INSERT is not
//! classified, the role is still what the reads set, and Client::handle (which ignores the error) sends
//! the whole message - the INSERT included - to a replica.
//!
//!   cargo test --offline --test d48_c05_shard_conflict_hides_write

use pgcat::config::{PoolMode, Role};
use pgcat::messages::simple_query;
use pgcat::pool::PoolSettings;
use pgcat::query_router::QueryRouter;

#[test]
fn a_write_behind_a_shard_conflict_still_goes_to_the_primary() {
    QueryRouter::setup();
    let ps = PoolSettings {
        pool_mode: PoolMode::Transaction,
        shards: 3,
        query_parser_enabled: true,
        query_parser_read_write_splitting: true,
        primary_reads_enabled: false,
        default_role: Some(Role::Replica),
        automatic_sharding_key: Some("data.id".to_string()),
        ..Default::default()
    };
    let mut qr = QueryRouter::new();
    qr.update_pool_settings(&ps);

    let mut routed = vec![];
    for sql in [
        "SELECT * FROM data WHERE data.id = 5; INSERT INTO audit (what) VALUES ('seen 5')",
        "SELECT * FROM data WHERE data.id = 5; SELECT * FROM data WHERE data.id = 6; INSERT INTO audit (what) VALUES ('seen both')",
    ] {
        qr.set_default_role();
        let ast = qr.parse(&simple_query(sql)).expect("parses");
        let _ = qr.infer(&ast); // Client::handle ignores the result as well
        routed.push((sql, qr.role()));
    }
    for (sql, role) in &routed {
        assert_eq!(*role, Some(Role::Primary), "C05: a message that contains an INSERT was routed to {:?}: {}", role, sql);
    }
}

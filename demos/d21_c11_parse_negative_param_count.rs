// Demonstration for defect D21 (C11): copy to /repo/tests/ and run
//   cargo test --offline --test d21_c11_parse_negative_param_count            (debug: the encoder panics)
//   cargo test --offline --release --test d21_c11_parse_negative_param_count  (release: mis-framed message)
// With the statement cache on, a client's Parse is decoded and encoded again for the server. The encoder
// computed the frame length from the client-supplied parameter count: `4 * num_params as usize`.
// A Parse announcing -1 parameters (PostgreSQL itself answers this with an ordinary ERROR) made the
// multiplication overflow: a panic in debug builds; in release builds a frame that is 4 bytes shorter
// than it says, after which the server reads garbage, closes the connection, and pgcat bans the replica.
use bytes::{Buf, BufMut, BytesMut};
use pgcat::messages::Parse;

#[test]
fn re_encoded_parse_is_well_framed_whatever_the_count_says() {
    for count in [-1i16, i16::MIN, 0, 1] {
        let mut body = BytesMut::new();
        body.put_slice(b"s1\0SELECT 1\0");
        body.put_i16(count);
        if count == 1 {
            body.put_i32(23);
        }
        let mut original = BytesMut::new();
        original.put_u8(b'P');
        original.put_i32(body.len() as i32 + 4);
        original.put_slice(&body);

        let parse = match Parse::try_from(&original) {
            Ok(parse) => parse.rewrite(),
            Err(_) => continue, // refusing the message is fine too
        };
        let encoded = std::panic::catch_unwind(|| -> BytesMut { (&parse).try_into().unwrap() });
        let encoded = match encoded {
            Ok(encoded) => encoded,
            Err(_) => panic!("encoding a Parse that announces {} parameters panicked", count),
        };
        let mut b = &encoded[..];
        assert_eq!(b.get_u8(), b'P');
        let announced = b.get_i32() as usize;
        assert_eq!(
            announced,
            encoded.len() - 1,
            "a Parse that announces {} parameters is forwarded with a wrong length field",
            count
        );
    }
}

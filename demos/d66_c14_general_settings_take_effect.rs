//! D66 (C14, C19): a reload that changes only the general settings a pool is built from leaves the pool as it was.
//!
//! from_config keeps a live pool when `Pool::hash_value()` of its own section is unchanged. But a pool is also
//! built from values of [general] (ban_time, healthcheck_delay / healthcheck_timeout, connect_timeout,
//! idle_timeout, server_lifetime, server_round_robin) and from the global [plugins] section when it has none
//! of its own. A valid file that changes only those is accepted, becomes the configuration in force
//! (SHOW CONFIG says so) - and every transaction keeps running with the old ban time, the old health-check
//! timeout and without the table_access rules the operator just switched on.
//!
//! No PostgreSQL server is needed (validate_config = false).
//!   cargo test --offline --test d66_c14_general_settings_take_effect

use std::collections::HashMap;
use std::sync::Arc;

use parking_lot::Mutex;

use pgcat::config::{self, get_config, reload_config};
use pgcat::pool::{get_pool, ClientServerMap, ConnectionPool};

fn config_toml(ban_time: i64, healthcheck_timeout: u64, table_access: bool) -> String {
    let plugins = if table_access {
        r#"
[plugins]

[plugins.table_access]
enabled = true
tables = ["secret"]
"#
    } else {
        ""
    };
    format!(
        r#"
[general]
host = "127.0.0.1"
port = 16433
admin_username = "admin"
admin_password = "admin"
validate_config = false
ban_time = {ban_time}
healthcheck_timeout = {healthcheck_timeout}
{plugins}
[pools.db]
query_parser_enabled = true

[pools.db.users.0]
username = "app"
password = "pw"
pool_size = 2
pool_mode = "transaction"

[pools.db.shards.0]
servers = [["127.0.0.1", 1, "primary"]]
database = "postgres"
"#
    )
}

#[tokio::test(flavor = "multi_thread", worker_threads = 2)]
async fn general_settings_of_a_reloaded_file_reach_the_pools() {
    let path = std::env::temp_dir().join(format!("d66_pgcat_{}.toml", std::process::id()));
    let path_str = path.to_str().unwrap().to_string();
    std::fs::write(&path, config_toml(60, 1000, false)).unwrap();
    let map: ClientServerMap = Arc::new(Mutex::new(HashMap::new()));
    config::parse(&path_str).await.expect("config parses");
    ConnectionPool::from_config(map.clone()).await.expect("pools are built");

    let pool = get_pool("db", "app").unwrap();
    assert_eq!(pool.settings.ban_time, 60);
    assert_eq!(pool.settings.healthcheck_timeout, 1000);
    assert!(pool.settings.plugins.is_none());

    let mut failures = vec![];

    // reload 1: a replica that fails is to be banned for 5 seconds, and a health check gets 200 ms
    std::fs::write(&path, config_toml(5, 200, false)).unwrap();
    assert_eq!(reload_config(map.clone()).await, Ok(true), "the file is valid and changed");
    assert_eq!(get_config().general.ban_time, 5, "the new file is the configuration in force");
    let pool = get_pool("db", "app").unwrap();
    if pool.settings.ban_time != 5 || pool.settings.healthcheck_timeout != 200 {
        failures.push(format!(
            "after the reload CONFIG says ban_time = {}, healthcheck_timeout = {}; the pool every transaction uses still has ban_time = {}, healthcheck_timeout = {}",
            get_config().general.ban_time,
            get_config().general.healthcheck_timeout,
            pool.settings.ban_time,
            pool.settings.healthcheck_timeout
        ));
    }

    // reload 2: the operator switches the table_access plugin on for all pools
    std::fs::write(&path, config_toml(5, 200, true)).unwrap();
    assert_eq!(reload_config(map.clone()).await, Ok(true), "the file is valid and changed");
    assert!(get_config().plugins.is_some(), "the new file is the configuration in force");
    let pool = get_pool("db", "app").unwrap();
    let enabled = pool
        .settings
        .plugins
        .as_ref()
        .and_then(|p| p.table_access.as_ref())
        .map(|t| t.enabled)
        .unwrap_or(false);
    if !enabled {
        failures.push(format!(
            "after the reload CONFIG has table_access enabled for every pool; the pool's settings (what Client::handle gives the plugins) have plugins = {:?}: `SELECT * FROM secret` is still forwarded",
            pool.settings.plugins
        ));
    }

    // an unchanged file still keeps the pool (and its server connections)
    let before = get_pool("db", "app").unwrap();
    assert_eq!(reload_config(map.clone()).await, Ok(false));
    let after = get_pool("db", "app").unwrap();
    assert!(Arc::ptr_eq(&before.settings, &after.settings), "nothing changed: the pool is the same object");

    let _ = std::fs::remove_file(&path);
    assert!(failures.is_empty(), "C14:\n{}", failures.join("\n"));
}

//! D72 (C14): two reloads that overlap leave CONFIG on the newer file and POOLS on the older one.
//!
//! reload_config is called from three places that do not know of each other: the SIGHUP arm of the accept loop, the
//! autoreload task, and the admin RELOAD of any admin client. It parses the file (CONFIG := new), then builds the
//! pools from a snapshot of CONFIG taken when the build starts (POOLS := built). Nothing serialises two calls:
//!
//!   reload A  parse(v2)  build from v2 ......................(slow server)...... POOLS := pools of v2
//!   reload B             parse(v3)  build from v3  POOLS := pools of v3
//!
//! A finishes last: the pools in service are those of the older file v2, CONFIG is v3, and every later reload
//! compares the file with CONFIG, finds `no change` and leaves it at that. The valid, newer file never takes
//! effect; SHOW CONFIG and the pools disagree until the file is edited again.
//!
//! Two fake backends; the slow one answers the startup packet after 1.5 s (a server in recovery).
//!   cargo test --offline --test d72_c14_overlapping_reloads

use std::collections::HashMap;
use std::sync::Arc;
use std::time::Duration;

use bytes::{BufMut, BytesMut};
use parking_lot::Mutex;
use tokio::io::{AsyncReadExt, AsyncWriteExt};
use tokio::net::{TcpListener, TcpStream};

use pgcat::config::{self, get_config, reload_config};
use pgcat::pool::{get_pool, ClientServerMap, ConnectionPool};

fn msg(code: u8, body: &[u8]) -> BytesMut {
    let mut m = BytesMut::new();
    m.put_u8(code);
    m.put_i32(body.len() as i32 + 4);
    m.put_slice(body);
    m
}

async fn backend_connection(mut s: TcpStream, delay: Duration) {
    // startup packet (no TLS in this test)
    let len = match s.read_i32().await { Ok(l) => l, Err(_) => return };
    let mut body = vec![0u8; len as usize - 4];
    if s.read_exact(&mut body).await.is_err() { return; }
    tokio::time::sleep(delay).await;
    let mut out = BytesMut::new();
    out.put(msg(b'R', &0i32.to_be_bytes()));
    for (k, v) in [("server_version", "14.5"), ("client_encoding", "UTF8"), ("DateStyle", "ISO, MDY"), ("TimeZone", "Etc/UTC"), ("standard_conforming_strings", "on"), ("application_name", "pgcat")] {
        let mut b = BytesMut::new();
        b.put_slice(k.as_bytes()); b.put_u8(0); b.put_slice(v.as_bytes()); b.put_u8(0);
        out.put(msg(b'S', &b));
    }
    let mut k = BytesMut::new(); k.put_i32(1); k.put_i32(2);
    out.put(msg(b'K', &k));
    out.put(msg(b'Z', b"I"));
    if s.write_all(&out).await.is_err() { return; }
    // answer whatever comes with CommandComplete + ReadyForQuery
    loop {
        let code = match s.read_u8().await { Ok(c) => c, Err(_) => return };
        let len = match s.read_i32().await { Ok(l) => l, Err(_) => return };
        let mut body = vec![0u8; len as usize - 4];
        if s.read_exact(&mut body).await.is_err() { return; }
        if code == b'X' { return; }
        let mut out = BytesMut::new();
        out.put(msg(b'C', b"OK\0"));
        out.put(msg(b'Z', b"I"));
        if s.write_all(&out).await.is_err() { return; }
    }
}

async fn start_backend(delay: Duration) -> u16 {
    let l = TcpListener::bind("127.0.0.1:0").await.unwrap();
    let port = l.local_addr().unwrap().port();
    tokio::spawn(async move {
        loop {
            let (s, _) = l.accept().await.unwrap();
            tokio::spawn(backend_connection(s, delay));
        }
    });
    port
}

fn config_toml(port: u16, min_pool_size: u32) -> String {
    format!(
        r#"
[general]
host = "127.0.0.1"
port = 16433
admin_username = "admin"
admin_password = "admin"
validate_config = true
connect_timeout = 5000

[pools.alpha.users.0]
username = "app"
password = "pw"
pool_size = 2
min_pool_size = {min_pool_size}
pool_mode = "transaction"

[pools.alpha.shards.0]
servers = [["127.0.0.1", {port}, "primary"]]
database = "postgres"
"#
    )
}

#[tokio::test(flavor = "multi_thread", worker_threads = 4)]
async fn the_file_read_last_is_the_one_in_force() {
    let fast_1 = start_backend(Duration::from_millis(0)).await;
    let slow = start_backend(Duration::from_millis(1500)).await;
    let fast_2 = start_backend(Duration::from_millis(0)).await;

    let path = std::env::temp_dir().join(format!("d72_pgcat_{}.toml", std::process::id()));
    let path_str = path.to_str().unwrap().to_string();
    std::fs::write(&path, config_toml(fast_1, 0)).unwrap();
    let map: ClientServerMap = Arc::new(Mutex::new(HashMap::new()));
    config::parse(&path_str).await.expect("v1 parses");
    ConnectionPool::from_config(map.clone()).await.expect("v1 pools");

    // reload A (say: the autoreload task): v2 moves alpha to a server that is slow to accept logins
    std::fs::write(&path, config_toml(slow, 1)).unwrap();
    let map_a = map.clone();
    let reload_a = tokio::spawn(async move { reload_config(map_a).await });
    tokio::time::sleep(Duration::from_millis(400)).await;
    assert!(!reload_a.is_finished(), "reload A is still building its pools");

    // reload B (say: the operator's RELOAD after correcting the file): v3 moves alpha to a healthy server
    std::fs::write(&path, config_toml(fast_2, 1)).unwrap();
    let b = reload_config(map.clone()).await;
    let a = reload_a.await.unwrap();
    let _ = std::fs::remove_file(&path);
    println!("reload A: {:?}; reload B: {:?}", a, b);

    let in_config = get_config().pools["alpha"].shards["0"].servers[0].port;
    let in_pools = get_pool("alpha", "app").unwrap().address(0, 0).port;
    assert_eq!(in_config, fast_2, "the file read last is v3");
    assert_eq!(
        in_pools, in_config,
        "C14: CONFIG says pool alpha is served by port {} (v3, the file read last); the pool in service connects to port {} (v2, slow = {}): the two reloads overlapped, the older one published its pools last - and every later reload of v3 sees `no change`",
        in_config, in_pools, slow
    );
}

// Demonstration for defect D18 (C13): copy to /repo/tests/ and run
//   cargo test --offline --test d18_c13_primary_reads_case
// The command regexes are case-insensitive, so `SET PRIMARY READS TO ON` is one of the documented
// commands "in all spellings": pgcat handles it itself and acknowledges it. Before the `fix:` commit
// the captured keyword was compared with "on"/"off"/"default" as written, so the upper-case spellings
// were acknowledged and ignored - SHOW PRIMARY READS kept reporting the old value.
use pgcat::messages::simple_query;
use pgcat::query_router::{Command, QueryRouter};

fn show(qr: &mut QueryRouter) -> String {
    match qr.try_execute_command(&simple_query("SHOW PRIMARY READS")) {
        Some((Command::ShowPrimaryReads, value)) => value,
        other => panic!("SHOW PRIMARY READS not handled: {:?}", other.map(|o| o.1)),
    }
}

#[test]
fn set_primary_reads_takes_effect_in_every_spelling() {
    QueryRouter::setup();
    let mut qr = QueryRouter::new();

    for (set, expect) in [
        ("SET PRIMARY READS TO on", "on"),
        ("SET PRIMARY READS TO off", "off"),
        ("set primary reads to 'ON'", "on"),
        ("SET PRIMARY READS TO OFF", "off"),
        ("SET PRIMARY READS TO On;", "on"),
    ] {
        let handled = qr.try_execute_command(&simple_query(set));
        assert!(
            matches!(handled, Some((Command::SetPrimaryReads, _))),
            "{set:?} is one of the documented commands and must be handled by the pooler"
        );
        assert_eq!(show(&mut qr), expect, "after {set:?} (which was acknowledged)");
    }

    // DEFAULT goes back to the pool's setting, whatever the spelling
    let before = {
        qr.try_execute_command(&simple_query("SET PRIMARY READS TO default"));
        show(&mut qr)
    };
    qr.try_execute_command(&simple_query("SET PRIMARY READS TO on"));
    qr.try_execute_command(&simple_query("SET PRIMARY READS TO off"));
    qr.try_execute_command(&simple_query("SET PRIMARY READS TO DEFAULT"));
    let opposite = if before == "on" { "off" } else { "on" };
    qr.try_execute_command(&simple_query(&format!("SET PRIMARY READS TO {}", opposite)));
    qr.try_execute_command(&simple_query("SET PRIMARY READS TO Default"));
    assert_eq!(show(&mut qr), before, "after SET PRIMARY READS TO Default");
}

// Demonstration for defect D31 (C12): copy to /repo/tests/ and run
//   cargo test --offline --test d31_c12_failed_parameter_sync
// After a checkout pgcat brings the server connection to the client's tracked parameters with one
// multi-statement query: `SET application_name TO E'..';SET DateStyle TO E'..';...`. PostgreSQL runs a
// simple query with several statements as one implicit transaction: if one SET fails (a client that
// announced DateStyle=bogus at startup - PostgreSQL itself would have refused that client) all of them are
// rolled back. Server::query() returns Ok whatever the server answered, so before the `fix:` commit
// sync_parameters reported success and the client's statements ran under the PREVIOUS client's
// application_name / TimeZone / ... - values one client established, visible to another.
use std::collections::HashMap;
use std::sync::Arc;

use bytes::{BufMut, BytesMut};
use tokio::io::{AsyncReadExt, AsyncWriteExt};
use tokio::net::TcpListener;

use pgcat::config::{Address, User};
use pgcat::server::{Server, ServerParameters};
use pgcat::stats::ServerStats;

fn msg(code: u8, body: &[u8]) -> BytesMut {
    let mut m = BytesMut::new();
    m.put_u8(code);
    m.put_i32(body.len() as i32 + 4);
    m.put_slice(body);
    m
}

fn ps(k: &str, v: &str) -> BytesMut {
    let mut b = Vec::new();
    b.extend_from_slice(k.as_bytes());
    b.push(0);
    b.extend_from_slice(v.as_bytes());
    b.push(0);
    msg(b'S', &b)
}

#[tokio::test]
async fn a_parameter_sync_the_server_refused_is_not_reported_as_done() {
    let listener = TcpListener::bind("127.0.0.1:0").await.unwrap();
    let port = listener.local_addr().unwrap().port();
    let (tx, mut rx) = tokio::sync::mpsc::unbounded_channel::<String>();

    tokio::spawn(async move {
        let (mut s, _) = listener.accept().await.unwrap();
        let len = s.read_i32().await.unwrap();
        let mut startup = vec![0u8; len as usize - 4];
        s.read_exact(&mut startup).await.unwrap();
        // the session as the previous client left it
        let mut session: HashMap<String, String> = HashMap::from([
            ("client_encoding".into(), "UTF8".into()),
            ("DateStyle".into(), "ISO, MDY".into()),
            ("TimeZone".into(), "Asia/Tokyo".into()),
            ("standard_conforming_strings".into(), "on".into()),
            ("application_name".into(), "previous client".into()),
        ]);
        let mut hello = BytesMut::new();
        hello.put(msg(b'R', &0i32.to_be_bytes()));
        for (k, v) in &session {
            hello.put(ps(k, v));
        }
        let mut kd = BytesMut::new();
        kd.put_i32(1);
        kd.put_i32(2);
        hello.put(msg(b'K', &kd));
        hello.put(msg(b'Z', b"I"));
        s.write_all(&hello).await.unwrap();
        loop {
            let code = match s.read_u8().await { Ok(c) => c, Err(_) => return };
            let len = s.read_i32().await.unwrap();
            let mut body = vec![0u8; len as usize - 4];
            s.read_exact(&mut body).await.unwrap();
            if code != b'Q' {
                continue;
            }
            let q = String::from_utf8_lossy(&body[..body.len() - 1]).to_string();
            let mut r = BytesMut::new();
            if q.to_uppercase().starts_with("SHOW") {
                let _ = tx.send(format!("application_name={} TimeZone={}", session["application_name"], session["TimeZone"]));
                r.put(msg(b'C', b"SHOW\0"));
                r.put(msg(b'Z', b"I"));
                s.write_all(&r).await.unwrap();
                continue;
            }
            // several statements in one simple query: one implicit transaction
            let mut staged = session.clone();
            let mut reports = BytesMut::new();
            let mut failed = false;
            for stmt in q.split(';').map(|x| x.trim()).filter(|x| !x.is_empty()) {
                let up = stmt.to_uppercase();
                if let Some(rest) = up.strip_prefix("SET ") {
                    let key_len = rest.find(" TO ").unwrap();
                    let key = stmt[4..4 + key_len].to_string();
                    let value = stmt[4 + key_len + 4..].trim().trim_start_matches('E').trim_matches('\'').to_string();
                    if value.contains("bogus") {
                        let mut e = Vec::new();
                        for (k, v) in [(b'S', "ERROR"), (b'C', "22023"), (b'M', "invalid value for parameter")] {
                            e.push(k);
                            e.extend_from_slice(v.as_bytes());
                            e.push(0);
                        }
                        e.push(0);
                        r.put(msg(b'E', &e));
                        failed = true;
                        break;
                    }
                    let canonical = session.keys().find(|k| k.eq_ignore_ascii_case(&key)).cloned().unwrap_or(key);
                    staged.insert(canonical.clone(), value.clone());
                    r.put(msg(b'C', b"SET\0"));
                    reports.put(ps(&canonical, &value));
                }
            }
            if !failed {
                session = staged;
                r.put(reports);
            }
            r.put(msg(b'Z', b"I"));
            s.write_all(&r).await.unwrap();
        }
    });

    let address = Address { host: "127.0.0.1".into(), port, ..Default::default() };
    let user = User { password: Some("x".into()), ..Default::default() };
    let mut server = Server::startup(
        &address, &user, "db", Default::default(), Arc::new(ServerStats::default()),
        Arc::new(parking_lot::RwLock::new(None)), true, false, 0,
    ).await.unwrap();

    // the next client: its own application_name and TimeZone, and a DateStyle the server will not take
    let mut params = ServerParameters::new();
    params.set_param("application_name".to_string(), "next client".to_string(), false);
    params.set_param("TimeZone".to_string(), "Europe/Paris".to_string(), false);
    params.set_param("DateStyle".to_string(), "bogus".to_string(), false);
    let synced = server.sync_parameters(&params).await;

    if synced.is_ok() && !server.is_bad() {
        // pgcat would now run the client's statements on this connection: under whose parameters?
        server.query("SHOW application_name").await.unwrap();
        let seen = rx.recv().await.unwrap();
        assert_eq!(
            seen, "application_name=next client TimeZone=Europe/Paris",
            "sync_parameters reported success, the client's statements run with the previous client's values"
        );
    }
}

//! D84 (C03): a simple Query overtakes the extended-protocol messages the client sent before it.
//!
//! Parse / Bind / Execute are buffered by pgcat until the Sync of their batch. A simple Query that arrives while
//! such messages are pending is sent to the server at once, alone: the client sent `P B E Q S`, the server
//! receives `Q ... P B E S` - the same bytes in another order (PostgreSQL executes P B E before the Query; with
//! pgcat the INSERT of the batch runs after the SELECT that was meant to see it, and in transaction mode on
//! whichever connection the later Sync gets). Known finding, not repaired.
//! (Reported by seeding agents in rounds 7, 9 and 10; the round-10 agent for C03 ran it.)
//!
//!   cargo test --offline --test d84_c03_query_overtakes_a_pending_batch

use std::collections::HashMap;
use std::sync::{Arc, Mutex as StdMutex};
use std::time::Duration;

use bytes::{BufMut, BytesMut};
use tokio::io::{AsyncReadExt, AsyncWriteExt, DuplexStream};
use tokio::net::{TcpListener, TcpStream};

type Log = Arc<StdMutex<Vec<String>>>;

// ---------------------------------------------------------------------------------------------
// Fake backend
// ---------------------------------------------------------------------------------------------

fn msg(code: u8, body: &[u8]) -> Vec<u8> {
    let mut m = Vec::with_capacity(body.len() + 5);
    m.push(code);
    m.extend_from_slice(&((body.len() as i32 + 4).to_be_bytes()));
    m.extend_from_slice(body);
    m
}

fn cstr(s: &str) -> Vec<u8> {
    let mut v = s.as_bytes().to_vec();
    v.push(0);
    v
}

fn read_cstr(buf: &[u8], pos: &mut usize) -> String {
    let start = *pos;
    while buf[*pos] != 0 {
        *pos += 1;
    }
    let s = String::from_utf8_lossy(&buf[start..*pos]).to_string();
    *pos += 1;
    s
}

async fn backend_connection(mut stream: TcpStream, log: Log) {
    // Startup packet.
    let len = match stream.read_i32().await {
        Ok(len) => len,
        Err(_) => return,
    };
    let mut startup = vec![0u8; len as usize - 4];
    if stream.read_exact(&mut startup).await.is_err() {
        return;
    }

    let mut out = Vec::new();
    out.extend(msg(b'R', &0i32.to_be_bytes()));
    for (k, v) in [
        ("server_version", "14.0"),
        ("server_encoding", "UTF8"),
        ("client_encoding", "UTF8"),
        ("DateStyle", "ISO, MDY"),
        ("TimeZone", "UTC"),
        ("standard_conforming_strings", "on"),
        ("application_name", "pgcat"),
    ] {
        let mut body = cstr(k);
        body.extend(cstr(v));
        out.extend(msg(b'S', &body));
    }
    let mut key = Vec::new();
    key.extend_from_slice(&4242i32.to_be_bytes());
    key.extend_from_slice(&4343i32.to_be_bytes());
    out.extend(msg(b'K', &key));
    out.extend(msg(b'Z', b"I"));
    if stream.write_all(&out).await.is_err() {
        return;
    }

    // Statements prepared on this connection: name -> query text.
    let mut statements: HashMap<String, String> = HashMap::new();

    loop {
        let code = match stream.read_u8().await {
            Ok(code) => code,
            Err(_) => return,
        };
        let len = match stream.read_i32().await {
            Ok(len) => len,
            Err(_) => return,
        };
        let mut body = vec![0u8; len as usize - 4];
        if stream.read_exact(&mut body).await.is_err() {
            return;
        }

        let mut out = Vec::new();
        match code {
            b'Q' => {
                let mut pos = 0;
                let query = read_cstr(&body, &mut pos);
                log.lock().unwrap().push(format!("Q:{}", query));
                let tag = if query.to_uppercase().starts_with("SET") {
                    "SET"
                } else {
                    "SELECT 0"
                };
                out.extend(msg(b'C', &cstr(tag)));
                out.extend(msg(b'Z', b"I"));
            }
            b'P' => {
                let mut pos = 0;
                let name = read_cstr(&body, &mut pos);
                let query = read_cstr(&body, &mut pos);
                log.lock().unwrap().push(format!("P:{}", query));
                statements.insert(name, query);
                out.extend(msg(b'1', &[]));
            }
            b'B' => {
                let mut pos = 0;
                let _portal = read_cstr(&body, &mut pos);
                let name = read_cstr(&body, &mut pos);
                let query = statements
                    .get(&name)
                    .cloned()
                    .unwrap_or_else(|| format!("<unknown statement {}>", name));
                // This is the statement that the following Execute runs on this server.
                log.lock().unwrap().push(format!("B:{}", query));
                out.extend(msg(b'2', &[]));
            }
            b'E' => {
                log.lock().unwrap().push("E".to_string());
                out.extend(msg(b'C', &cstr("INSERT 0 1")));
            }
            b'D' => {
                out.extend(msg(b'n', &[]));
            }
            b'C' => {
                out.extend(msg(b'3', &[]));
            }
            b'S' => {
                log.lock().unwrap().push("S".to_string());
                out.extend(msg(b'Z', b"I"));
            }
            b'H' => {}
            b'X' => return,
            _ => {}
        }

        if !out.is_empty() && stream.write_all(&out).await.is_err() {
            return;
        }
    }
}

async fn spawn_backend(log: Log) -> u16 {
    let listener = TcpListener::bind("127.0.0.1:0").await.unwrap();
    let port = listener.local_addr().unwrap().port();
    tokio::spawn(async move {
        loop {
            let (stream, _) = match listener.accept().await {
                Ok(conn) => conn,
                Err(_) => return,
            };
            tokio::spawn(backend_connection(stream, log.clone()));
        }
    });
    port
}

// ---------------------------------------------------------------------------------------------
// Frontend messages
// ---------------------------------------------------------------------------------------------

fn parse_msg(name: &str, query: &str) -> Vec<u8> {
    let mut body = cstr(name);
    body.extend(cstr(query));
    body.extend_from_slice(&0i16.to_be_bytes());
    msg(b'P', &body)
}

fn bind_msg(portal: &str, statement: &str) -> Vec<u8> {
    let mut body = cstr(portal);
    body.extend(cstr(statement));
    body.extend_from_slice(&0i16.to_be_bytes()); // parameter format codes
    body.extend_from_slice(&0i16.to_be_bytes()); // parameters
    body.extend_from_slice(&0i16.to_be_bytes()); // result format codes
    msg(b'B', &body)
}

fn execute_msg(portal: &str) -> Vec<u8> {
    let mut body = cstr(portal);
    body.extend_from_slice(&0i32.to_be_bytes());
    msg(b'E', &body)
}

fn sync_msg() -> Vec<u8> {
    msg(b'S', &[])
}

/// Reads the pooler's answer up to and including ReadyForQuery, returns the message codes.
async fn read_until_ready(client: &mut DuplexStream) -> String {
    let mut codes = String::new();
    loop {
        let code = tokio::time::timeout(Duration::from_secs(10), client.read_u8())
            .await
            .expect("the pooler did not answer in time")
            .expect("the pooler closed the connection");
        let len = client.read_i32().await.unwrap();
        let mut body = vec![0u8; len as usize - 4];
        client.read_exact(&mut body).await.unwrap();
        codes.push(code as char);
        if code == b'E' {
            panic!(
                "the pooler answered with an error: {}",
                String::from_utf8_lossy(&body)
            );
        }
        if code == b'Z' {
            return codes;
        }
    }
}

fn binds_of(log: &Log, needle: &str) -> usize {
    log.lock()
        .unwrap()
        .iter()
        .filter(|entry| entry.starts_with("B:") && entry.contains(needle))
        .count()
}

// ---------------------------------------------------------------------------------------------
// The scenario
// ---------------------------------------------------------------------------------------------

#[tokio::test(flavor = "multi_thread", worker_threads = 4)]
async fn requests_reach_the_server_in_the_order_the_client_sent_them() {
    let log: Log = Arc::new(StdMutex::new(Vec::new()));
    let port = spawn_backend(log.clone()).await;

    let config = format!(
        r#"
[general]
host = "127.0.0.1"
port = 6432
admin_username = "admin"
admin_password = "admin"
validate_config = false
connect_timeout = 2000
healthcheck_delay = 600000
healthcheck_timeout = 2000
ban_time = 60

[pools.c03db]
pool_mode = "transaction"

[pools.c03db.users.0]
username = "c03user"
password = "c03password"
auth_type = "trust"
pool_size = 2

[pools.c03db.shards.0]
servers = [["127.0.0.1", {port}, "primary"]]
database = "c03db"
"#
    );
    let path = std::env::temp_dir().join(format!("d84_c03_{}.toml", std::process::id()));
    std::fs::write(&path, config).unwrap();
    pgcat::query_router::QueryRouter::setup();
    pgcat::config::parse(path.to_str().unwrap()).await.expect("config");
    let client_server_map: pgcat::pool::ClientServerMap = Arc::new(parking_lot::Mutex::new(HashMap::new()));
    pgcat::pool::ConnectionPool::from_config(client_server_map.clone()).await.expect("pools");

    let (mut client, pooler_side) = tokio::io::duplex(1 << 16);
    let (read, write) = tokio::io::split(pooler_side);
    let mut startup = BytesMut::new();
    for (k, v) in [("user", "c03user"), ("database", "c03db")] {
        startup.put_slice(k.as_bytes());
        startup.put_u8(0);
        startup.put_slice(v.as_bytes());
        startup.put_u8(0);
    }
    startup.put_u8(0);
    let (_shutdown_tx, shutdown_rx) = tokio::sync::broadcast::channel::<()>(1);
    let handle = tokio::spawn(async move {
        let mut pgcat_client = pgcat::client::Client::startup(read, write, "127.0.0.1:55555".parse().unwrap(), startup, client_server_map, shutdown_rx, false)
            .await
            .expect("client startup");
        let _ = pgcat_client.handle().await;
    });
    let greeting = read_until_ready(&mut client).await;
    assert!(greeting.starts_with('R'), "greeting: {}", greeting);

    // Parse, Bind, Execute - then a simple Query - then the Sync of the batch
    let mut bytes = parse_msg("", "INSERT INTO t VALUES (1)");
    bytes.extend(bind_msg("", ""));
    bytes.extend(execute_msg(""));
    let mut q = cstr("SELECT count(*) FROM t");
    q = msg(b'Q', &q.split_off(0));
    bytes.extend(q);
    bytes.extend(sync_msg());
    client.write_all(&bytes).await.unwrap();
    read_until_ready(&mut client).await; // the Query's
    read_until_ready(&mut client).await; // the batch's

    client.write_all(&msg(b'X', &[])).await.unwrap();
    let _ = tokio::time::timeout(Duration::from_secs(5), handle).await;
    let _ = std::fs::remove_file(&path);

    let seen: Vec<String> = log
        .lock()
        .unwrap()
        .iter()
        .filter(|entry| !entry.starts_with("Q:SET") && !entry.starts_with("Q:RESET") && !entry.starts_with("Q:DISCARD"))
        .map(|entry| entry.split(':').next().unwrap().to_string())
        .collect();
    assert_eq!(
        seen,
        vec!["P", "B", "E", "Q", "S"],
        "C03: the client sent P B E Q S, the server received {:?}",
        log.lock().unwrap()
    );
}

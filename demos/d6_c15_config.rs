// Demonstration for defect D6 (C15): copy to /repo/tests/ and run
//   cargo test --offline --test d6_c15_config
// Before the `fix:` commit every configuration below is accepted by validate();
// the first two index out of bounds in ConnectionPool::get/ban, the others make
// bb8's builder assert (inside main's select loop on reload).
use pgcat::config::{Config, Pool, Shard, User};

fn base() -> Config {
    let mut c = Config::default();
    let mut p = Pool::default();
    p.shards.clear();
    p.shards.insert("0".into(), Shard::default());
    p.users.clear();
    let mut u = User::default();
    u.password = Some("x".into());
    p.users.insert("0".into(), u);
    c.pools.clear();
    c.pools.insert("db".into(), p);
    c
}

#[test]
fn unservable_configs_are_rejected() {
    let mut accepted = vec![];
    assert!(base().validate().is_ok(), "base config must be valid");

    let mut c = base();
    let p = c.pools.get_mut("db").unwrap();
    p.shards.clear();
    p.shards.insert("1".into(), Shard::default());
    p.shards.insert("2".into(), Shard::default());
    if c.validate().is_ok() { accepted.push("shard ids {1,2}"); }

    let mut c = base();
    c.pools.get_mut("db").unwrap().shards.insert("2".into(), Shard::default());
    if c.validate().is_ok() { accepted.push("shard ids {0,2}"); }

    let mut c = base();
    c.pools.get_mut("db").unwrap().shards.insert("00".into(), Shard::default());
    if c.validate().is_ok() { accepted.push("shard ids {0,00}"); }

    let mut c = base();
    c.pools.get_mut("db").unwrap().shards.clear();
    if c.validate().is_ok() { accepted.push("no shards"); }

    let mut c = base();
    c.pools.get_mut("db").unwrap().users.get_mut("0").unwrap().pool_size = 0;
    if c.validate().is_ok() { accepted.push("pool_size = 0"); }

    let mut c = base();
    c.pools.get_mut("db").unwrap().connect_timeout = Some(0);
    if c.validate().is_ok() { accepted.push("pool connect_timeout = 0"); }

    let mut c = base();
    c.general.idle_timeout = 0;
    if c.validate().is_ok() { accepted.push("general idle_timeout = 0"); }

    let mut c = base();
    c.pools.get_mut("db").unwrap().users.get_mut("0").unwrap().server_lifetime = Some(0);
    if c.validate().is_ok() { accepted.push("user server_lifetime = 0"); }

    assert!(accepted.is_empty(), "accepted although unservable: {:?}", accepted);
}

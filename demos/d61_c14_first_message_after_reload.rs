//! D61 (C14): the first message after a RELOAD is handled with the previous configuration.
//!
//! Client::handle re-resolves its pool (and refreshes the router's settings from it) right before the checkout -
//! after the message was read, looked at by handle_custom_protocol, parsed, routed and passed through the pause
//! gate, all with the pool object and the settings of the *previous* configuration. After a reload that changes
//! the number of shards, `SET SHARDING KEY TO 'k'` is still hashed for the old count; the shard it selects is then
//! used as an index into the new pool: the statement runs on a shard that, under the configuration in force, the
//! key does not belong to.
//!
//!   cargo test --offline --test d61_c14_first_message_after_reload

use bytes::{Buf, BufMut, BytesMut};
use parking_lot::Mutex;
use std::collections::HashMap;
use std::io::Write;
use std::sync::Arc;
use std::time::Duration;
use tokio::io::{AsyncReadExt, AsyncWriteExt};
use tokio::net::{TcpListener, TcpStream};

// ---------------------------------------------------------------------------
// wire helpers
// ---------------------------------------------------------------------------

fn cstr(buf: &mut BytesMut, s: &str) {
    buf.put_slice(s.as_bytes());
    buf.put_u8(0);
}

fn msg(code: u8, body: &[u8]) -> BytesMut {
    let mut m = BytesMut::new();
    m.put_u8(code);
    m.put_i32(body.len() as i32 + 4);
    m.put_slice(body);
    m
}

fn read_cstr(buf: &mut &[u8]) -> String {
    let end = buf.iter().position(|b| *b == 0).expect("nul terminator");
    let s = String::from_utf8_lossy(&buf[..end]).to_string();
    buf.advance(end + 1);
    s
}

async fn read_msg(stream: &mut TcpStream) -> Option<(u8, Vec<u8>)> {
    let code = stream.read_u8().await.ok()?;
    let len = stream.read_i32().await.ok()?;
    let mut body = vec![0u8; len as usize - 4];
    stream.read_exact(&mut body).await.ok()?;
    Some((code, body))
}

// ---------------------------------------------------------------------------
// fake PostgreSQL backend: logs every Query, tracks BEGIN / COMMIT / ROLLBACK
// ---------------------------------------------------------------------------

#[derive(Default)]
struct BackendLog {
    trace: Vec<String>,
    queries: Vec<String>,
}

async fn backend_connection(mut stream: TcpStream, conn_id: usize, log: Arc<Mutex<BackendLog>>) {
    loop {
        let len = match stream.read_i32().await {
            Ok(len) => len,
            Err(_) => return,
        };
        let mut body = vec![0u8; len as usize - 4];
        if stream.read_exact(&mut body).await.is_err() {
            return;
        }
        match (&body[..4]).get_i32() {
            80877103 => {
                let _ = stream.write_all(b"N").await;
                continue;
            }
            80877102 => return,
            _ => break,
        }
    }
    let mut out = BytesMut::new();
    out.put(msg(b'R', &0i32.to_be_bytes()));
    for (k, v) in [
        ("server_version", "14.5"),
        ("server_encoding", "UTF8"),
        ("client_encoding", "UTF8"),
        ("DateStyle", "ISO, MDY"),
        ("TimeZone", "Etc/UTC"),
        ("standard_conforming_strings", "on"),
        ("application_name", "pgcat"),
        ("integer_datetimes", "on"),
    ] {
        let mut b = BytesMut::new();
        cstr(&mut b, k);
        cstr(&mut b, v);
        out.put(msg(b'S', &b));
    }
    let mut k = BytesMut::new();
    k.put_i32(4242 + conn_id as i32);
    k.put_i32(99);
    out.put(msg(b'K', &k));
    out.put(msg(b'Z', b"I"));
    if stream.write_all(&out).await.is_err() {
        return;
    }
    let mut status = b'I';
    while let Some((code, body)) = read_msg(&mut stream).await {
        let mut b: &[u8] = &body;
        let mut out = BytesMut::new();
        match code {
            b'X' => return,
            b'Q' => {
                let query = read_cstr(&mut b);
                log.lock().trace.push(format!("[backend #{}] Query {:?}", conn_id, query));
                log.lock().queries.push(query.clone());
                let upper = query.trim().to_uppercase();
                if upper.starts_with("BEGIN") {
                    status = b'T';
                } else if upper.starts_with("COMMIT") || upper.starts_with("ROLLBACK") {
                    status = b'I';
                }
                let mut t = BytesMut::new();
                cstr(&mut t, if upper.starts_with("SET") { "SET" } else { "OK" });
                out.put(msg(b'C', &t));
                out.put(msg(b'Z', &[status]));
            }
            other => log.lock().trace.push(format!("[backend #{}] message '{}'", conn_id, other as char)),
        }
        if !out.is_empty() && stream.write_all(&out).await.is_err() {
            return;
        }
    }
}

async fn start_fake_backend(log: Arc<Mutex<BackendLog>>) -> u16 {
    let listener = TcpListener::bind("127.0.0.1:0").await.unwrap();
    let port = listener.local_addr().unwrap().port();
    tokio::spawn(async move {
        let mut next_id = 0usize;
        loop {
            let (stream, _) = match listener.accept().await {
                Ok(s) => s,
                Err(_) => return,
            };
            let log = log.clone();
            let id = next_id;
            next_id += 1;
            tokio::spawn(backend_connection(stream, id, log));
        }
    });
    port
}

// ---------------------------------------------------------------------------
// pgcat in-process
// ---------------------------------------------------------------------------

fn config(ports: &[u16]) -> String {
    let mut c = String::from(
        r#"
[general]
host = "127.0.0.1"
port = 6432
admin_username = "admin"
admin_password = "admin"
validate_config = false
connect_timeout = 2000
worker_threads = 2

[pools.db]
pool_mode = "transaction"
sharding_function = "pg_bigint_hash"

[pools.db.users.0]
username = "u"
password = "p"
auth_type = "trust"
pool_size = 2
"#,
    );
    for (i, port) in ports.iter().enumerate() {
        c.push_str(&format!(
            "\n[pools.db.shards.{}]\nservers = [[\"127.0.0.1\", {}, \"primary\"]]\ndatabase = \"db\"\n",
            i, port
        ));
    }
    c
}

async fn start_pgcat(path: &std::path::Path, ports: &[u16]) -> (u16, pgcat::pool::ClientServerMap) {
    std::fs::write(path, config(ports)).unwrap();
    pgcat::config::parse(path.to_str().unwrap()).await.expect("config parses");
    let client_server_map: pgcat::pool::ClientServerMap = Arc::new(Mutex::new(HashMap::new()));
    pgcat::pool::ConnectionPool::from_config(client_server_map.clone()).await.expect("pool builds");

    let listener = TcpListener::bind("127.0.0.1:0").await.unwrap();
    let port = listener.local_addr().unwrap().port();
    let (shutdown_tx, _) = tokio::sync::broadcast::channel::<()>(1);
    let (drain_tx, mut drain_rx) = tokio::sync::mpsc::channel::<i32>(2048);
    tokio::spawn(async move { while drain_rx.recv().await.is_some() {} });
    let map = client_server_map.clone();
    tokio::spawn(async move {
        let shutdown_tx = shutdown_tx;
        loop {
            let (stream, _) = match listener.accept().await {
                Ok(s) => s,
                Err(_) => return,
            };
            let map = map.clone();
            let shutdown_rx = shutdown_tx.subscribe();
            let drain_tx = drain_tx.clone();
            tokio::spawn(async move {
                let _ = pgcat::client::client_entrypoint(stream, map, shutdown_rx, drain_tx, false, None, false).await;
            });
        }
    });
    (port, client_server_map)
}

// ---------------------------------------------------------------------------
// frontend (the application) helpers
// ---------------------------------------------------------------------------

fn fe_parse(name: &str, query: &str) -> BytesMut {
    let mut b = BytesMut::new();
    cstr(&mut b, name);
    cstr(&mut b, query);
    b.put_i16(0);
    msg(b'P', &b)
}

fn fe_bind(portal: &str, statement: &str) -> BytesMut {
    let mut b = BytesMut::new();
    cstr(&mut b, portal);
    cstr(&mut b, statement);
    b.put_i16(0); // parameter format codes
    b.put_i16(0); // parameter values
    b.put_i16(0); // result format codes
    msg(b'B', &b)
}

fn fe_execute(portal: &str) -> BytesMut {
    let mut b = BytesMut::new();
    cstr(&mut b, portal);
    b.put_i32(0);
    msg(b'E', &b)
}

fn fe_sync() -> BytesMut {
    msg(b'S', b"")
}

/// What the application sees in answer to one batch (up to ReadyForQuery).
#[derive(Debug, Default)]
struct Reply {
    codes: String,
    ran: Vec<String>,
    errors: Vec<String>,
}

struct App {
    stream: TcpStream,
}

impl App {
    async fn connect(port: u16) -> App {
        let mut stream = TcpStream::connect(("127.0.0.1", port)).await.unwrap();
        let mut body = BytesMut::new();
        body.put_i32(196608);
        cstr(&mut body, "user");
        cstr(&mut body, "u");
        cstr(&mut body, "database");
        cstr(&mut body, "db");
        body.put_u8(0);
        let mut startup = BytesMut::new();
        startup.put_i32(body.len() as i32 + 4);
        startup.put(body);
        stream.write_all(&startup).await.unwrap();

        let mut app = App { stream };
        let reply = app.read_reply().await;
        assert!(
            reply.errors.is_empty(),
            "could not log in through pgcat: {:?}",
            reply
        );
        app
    }

    async fn read_reply(&mut self) -> Reply {
        let mut reply = Reply::default();
        loop {
            let (code, body) = tokio::time::timeout(Duration::from_secs(10), read_msg(&mut self.stream))
                .await
                .expect("timed out waiting for pgcat")
                .expect("pgcat closed the connection");
            reply.codes.push(code as char);
            match code {
                b'C' => {
                    let mut b: &[u8] = &body;
                    let tag = read_cstr(&mut b);
                    if let Some(q) = tag.strip_prefix("RAN ") {
                        reply.ran.push(q.to_string());
                    }
                }
                b'E' => {
                    let text = String::from_utf8_lossy(&body).replace('\0', " ");
                    reply.errors.push(text);
                }
                b'Z' => return reply,
                _ => (),
            }
        }
    }

    async fn send_simple(&mut self, sql: &str) {
        let mut b = BytesMut::new();
        cstr(&mut b, sql);
        self.stream.write_all(&msg(b'Q', &b)).await.unwrap();
    }

    /// message codes received until ReadyForQuery, or until nothing arrives for a second
    async fn codes_until_ready(&mut self) -> (String, Vec<String>) {
        let mut codes = String::new();
        let mut rows = vec![];
        loop {
            match tokio::time::timeout(Duration::from_secs(1), read_msg(&mut self.stream)).await {
                Ok(Some((code, body))) => {
                    codes.push(code as char);
                    if code == b'D' {
                        rows.push(String::from_utf8_lossy(&body[6..]).to_string());
                    }
                    if code == b'Z' {
                        return (codes, rows);
                    }
                }
                _ => return (codes, rows),
            }
        }
    }

    async fn batch(&mut self, messages: &[BytesMut]) -> Reply {
        let mut all = BytesMut::new();
        for m in messages {
            all.put_slice(m);
        }
        self.stream.write_all(&all).await.unwrap();
        self.read_reply().await
    }
}

// ---------------------------------------------------------------------------
// the scenario
// ---------------------------------------------------------------------------

#[tokio::test(flavor = "multi_thread", worker_threads = 2)]
async fn the_first_command_after_a_reload_is_routed_by_the_new_configuration() {
    pgcat::query_router::QueryRouter::setup();
    let mut logs = vec![];
    let mut ports = vec![];
    for _ in 0..3 {
        let log = Arc::new(Mutex::new(BackendLog::default()));
        ports.push(start_fake_backend(log.clone()).await);
        logs.push(log);
    }
    // a key that lives on different shards with 2 and with 3 shards
    let s2 = pgcat::sharding::Sharder::new(2, pgcat::sharding::ShardingFunction::PgBigintHash);
    let s3 = pgcat::sharding::Sharder::new(3, pgcat::sharding::ShardingFunction::PgBigintHash);
    let key = (1..1000i64).find(|k| s2.shard(*k) != s3.shard(*k)).unwrap();

    let path = std::env::temp_dir().join(format!("d61_pgcat_{}.toml", std::process::id()));
    let (pgcat_port, map) = start_pgcat(&path, &ports[..2]).await;

    let mut app = App::connect(pgcat_port).await;
    app.send_simple(&format!("SET SHARDING KEY TO '{}'", key)).await;
    let _ = app.codes_until_ready().await;
    app.send_simple("SELECT 'before the reload'").await;
    let (codes, _) = app.codes_until_ready().await;
    assert_eq!(codes, "CZ");
    assert!(
        logs[s2.shard(key)].lock().queries.iter().any(|q| q.contains("before the reload")),
        "with 2 shards key {} belongs to shard {}",
        key,
        s2.shard(key)
    );

    // the operator adds a third shard
    std::fs::write(&path, config(&ports)).unwrap();
    let reloaded = pgcat::config::reload_config(map.clone()).await;
    assert!(matches!(reloaded, Ok(true)), "{:?}", reloaded);

    // the application routes its next transaction the way it always does
    app.send_simple(&format!("SET SHARDING KEY TO '{}'", key)).await;
    let _ = app.codes_until_ready().await;
    app.send_simple("SELECT 'after the reload'").await;
    let (codes, _) = app.codes_until_ready().await;
    let _ = std::fs::remove_file(&path);
    assert_eq!(codes, "CZ");
    let ran_on: Vec<usize> = (0..3).filter(|i| logs[*i].lock().queries.iter().any(|q| q.contains("after the reload"))).collect();
    assert_eq!(
        ran_on,
        vec![s3.shard(key)],
        "C14: with 3 shards in force key {} belongs to shard {}; the first transaction after the reload ran on shard(s) {:?}",
        key,
        s3.shard(key),
        ran_on
    );
}

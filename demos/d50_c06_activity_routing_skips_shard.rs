//! D50 (C06): with db_activity_based_routing a SELECT can skip the shard inference.
//!
//! In the Query arm of QueryRouter::infer the two activity-based shortcuts (`the database is initializing`,
//! `this table was written a moment ago`) `continue` to the next statement before the automatic sharding key
//! is looked at: the SELECT runs on the primary of whatever shard the previous statement had selected.
//!
//!   cargo test --offline --test d50_c06_activity_routing_skips_shard

use bytes::{BufMut, BytesMut};
use pgcat::messages::simple_query;
use pgcat::pool::PoolSettings;
use pgcat::query_router::QueryRouter;
use pgcat::sharding::{Sharder, ShardingFunction};
use regex::Regex;

fn settings(shards: usize) -> PoolSettings {
    PoolSettings {
        shards,
        db: "c06_side".to_string(),
        query_parser_enabled: true,
        query_parser_read_write_splitting: true,
        automatic_sharding_key: Some("data.id".to_string()),
        sharding_function: ShardingFunction::PgBigintHash,
        sharding_key_regex: Some(Regex::new(r"/\* sharding_key: (-?\d+) \*/").unwrap()),
        shard_id_regex: Some(Regex::new(r"/\* shard_id: (\d+) \*/").unwrap()),
        ..PoolSettings::default()
    }
}

fn router(s: &PoolSettings) -> QueryRouter {
    QueryRouter::setup();
    let mut qr = QueryRouter::new();
    qr.update_pool_settings(s);
    qr
}

fn bind_text(values: &[&str]) -> BytesMut {
    let mut payload = BytesMut::new();
    payload.put_u8(0);
    payload.put_u8(0);
    payload.put_i16(0); // all text
    payload.put_i16(values.len() as i16);
    for v in values {
        payload.put_i32(v.len() as i32);
        payload.put_slice(v.as_bytes());
    }
    payload.put_i16(0);
    let mut bind = BytesMut::new();
    bind.put_u8(b'B');
    bind.put_i32(payload.len() as i32 + 4);
    bind.put(payload);
    bind
}

/// D50: with db_activity_based_routing a SELECT on a recently written table (or during the
/// init delay) skips the shard inference and runs on the previous statement's shard.
#[tokio::test]
async fn sf3_activity_based_routing_does_not_skip_shard_inference() {
    let mut s = settings(3);
    s.db_activity_based_routing = true;
    s.db_activity_init_delay = 1;
    s.table_mutation_cache_ms_ttl = 60_000;
    let sharder = Sharder::new(3, ShardingFunction::PgBigintHash);
    let mut qr = router(&s);

    // first contact: database is "initializing"
    let ast = qr.parse(&simple_query("SELECT 1")).unwrap();
    let _ = qr.infer(&ast);
    tokio::time::sleep(std::time::Duration::from_millis(50)).await;

    let ast = qr
        .parse(&simple_query("INSERT INTO data (id, v) VALUES (6, 1)"))
        .unwrap();
    qr.infer(&ast).unwrap();
    assert_eq!(qr.shard(), Some(sharder.shard(6)));

    let ast = qr.parse(&simple_query("SELECT * FROM data WHERE id = 5")).unwrap();
    qr.infer(&ast).unwrap();
    assert_eq!(
        qr.shard(),
        Some(sharder.shard(5)),
        "SELECT for key 5 right after a write to the table stays on key 6's shard"
    );
}


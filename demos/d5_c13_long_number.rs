// Demonstration for defect D5 (C13): copy to /repo/tests/ and run
//   cargo test --offline --test d5_c13_long_number
// Before the `fix:` commit both calls panic (parse().unwrap()); after it both return a command.
use pgcat::messages::simple_query;
use pgcat::query_router::QueryRouter;

#[test]
fn long_numbers_do_not_panic() {
    QueryRouter::setup();
    let mut qr = QueryRouter::new();
    let r = qr.try_execute_command(&simple_query("SET SHARDING KEY TO '99999999999999999999'"));
    assert!(r.is_some());
    let r = qr.try_execute_command(&simple_query("SET SHARD TO '99999999999999999999999'"));
    assert!(r.is_some());
}

//! D65 (C16): `PAUSE db, user` - spelled as the command's own usage text spells it - pauses every pool,
//! and `RESUME db, user` resumes every pool.
//!
//! admin::pause / admin::resume get the query split at white space. Only a query of exactly two words
//! was looked at for a `db,user` argument; anything longer - `PAUSE db, user` is three words - fell into
//! the `no argument` case: all pools. An operator who pauses one pool for maintenance stops the whole
//! pooler; worse, `RESUME db, user` lets the clients of every *other* paused pool start transactions on
//! servers that are supposed to be quiet.
//!
//! No PostgreSQL server is needed (validate_config = false, nobody checks out a connection).
//!   cargo test --offline --test d65_c16_pause_one_pool

use std::collections::HashMap;
use std::sync::Arc;

use bytes::{BufMut, BytesMut};
use parking_lot::Mutex;

use pgcat::admin::handle_admin;
use pgcat::config;
use pgcat::pool::{get_pool, ClientServerMap, ConnectionPool};

const CONFIG: &str = r#"
[general]
host = "127.0.0.1"
port = 16433
admin_username = "admin"
admin_password = "admin"
validate_config = false

[pools.billing.users.0]
username = "app"
password = "pw"
pool_size = 2
pool_mode = "transaction"

[pools.billing.shards.0]
servers = [["127.0.0.1", 1, "primary"]]
database = "postgres"

[pools.reports.users.0]
username = "app"
password = "pw"
pool_size = 2
pool_mode = "transaction"

[pools.reports.shards.0]
servers = [["127.0.0.1", 1, "primary"]]
database = "postgres"
"#;

fn simple_query(sql: &str) -> BytesMut {
    let mut m = BytesMut::new();
    m.put_u8(b'Q');
    m.put_i32(4 + sql.len() as i32 + 1);
    m.put_slice(sql.as_bytes());
    m.put_u8(0);
    m
}

/// Runs an admin command; returns the first byte of the reply ('C' CommandComplete, 'E' ErrorResponse).
async fn admin(sql: &str, map: &ClientServerMap) -> u8 {
    let mut out: Vec<u8> = Vec::new();
    handle_admin(&mut out, simple_query(sql), map.clone())
        .await
        .unwrap_or_else(|e| panic!("admin command {sql:?} failed: {e:?}"));
    out[0]
}

fn paused(db: &str) -> bool {
    get_pool(db, "app").unwrap().paused()
}

#[tokio::test(flavor = "multi_thread", worker_threads = 2)]
async fn pause_and_resume_with_an_argument_act_on_that_pool_only() {
    let path = std::env::temp_dir().join(format!("d65_pgcat_{}.toml", std::process::id()));
    std::fs::write(&path, CONFIG).unwrap();
    let map: ClientServerMap = Arc::new(Mutex::new(HashMap::new()));
    config::parse(path.to_str().unwrap()).await.expect("config parses");
    ConnectionPool::from_config(map.clone()).await.expect("pools are built");
    let _ = std::fs::remove_file(&path);

    let mut failures = vec![];

    for spelling in ["PAUSE billing,app", "PAUSE billing, app", "PAUSE billing , app", "pause billing, app;"] {
        let reply = admin(spelling, &map).await;
        if !(reply == b'C' && paused("billing") && !paused("reports")) {
            failures.push(format!(
                "`{}` answered '{}': billing paused = {}, reports paused = {} (only billing was named)",
                spelling, reply as char, paused("billing"), paused("reports")
            ));
        }
        assert_eq!(admin("RESUME", &map).await, b'C');
        assert!(!paused("billing") && !paused("reports"));
    }

    // both pools paused one by one; resuming one must leave the other paused
    for spelling in ["RESUME billing,app", "RESUME billing, app"] {
        assert_eq!(admin("PAUSE", &map).await, b'C');
        assert!(paused("billing") && paused("reports"));
        let reply = admin(spelling, &map).await;
        if !(reply == b'C' && !paused("billing") && paused("reports")) {
            failures.push(format!(
                "`{}` answered '{}': billing paused = {}, reports paused = {} (reports was not named: its clients now start transactions on a paused pool's servers)",
                spelling, reply as char, paused("billing"), paused("reports")
            ));
        }
        assert_eq!(admin("RESUME", &map).await, b'C');
    }

    // what is not `db,user` is a usage error, not `all pools`
    for spelling in ["PAUSE billing app", "PAUSE billing, app, extra"] {
        let reply = admin(spelling, &map).await;
        if reply != b'E' || paused("billing") || paused("reports") {
            failures.push(format!(
                "`{}` answered '{}': billing paused = {}, reports paused = {} (expected the usage error and no pool touched)",
                spelling, reply as char, paused("billing"), paused("reports")
            ));
        }
        assert_eq!(admin("RESUME", &map).await, b'C');
    }

    assert!(failures.is_empty(), "C16:\n{}", failures.join("\n"));
}

//! D85 (C17 / C03): an admin client whose query is half-way on the wire when the shutdown is broadcast is cut off.
//!
//! In the idle loop of `Client::handle` the wait for the next message is `select! { shutdown.recv(), read_message(..) }`.
//! `read_message` is not cancel-safe: when the broadcast arrives after it has taken the header of a message off the
//! socket, the future is dropped with those bytes; for an admin - who is to go on working during a graceful shutdown -
//! the shutdown arm then starts a fresh `read_message` in the middle of the message: the rest of the body is taken for
//! a header (`Unexpected length value`) and the admin is disconnected. Known finding, not repaired.
//! (Found and run by the round-10 seeding agent for C17; header replaced.)
//!
//!   cargo test --offline --test d85_c17_admin_cut_off_in_mid_message
use std::collections::HashMap;
use std::sync::Arc;
use std::time::Duration;
use parking_lot::Mutex;
use tokio::io::{AsyncReadExt, AsyncWriteExt};
use tokio::net::{TcpListener, TcpStream};
use tokio::sync::{broadcast, mpsc};
use tokio::time::timeout;

async fn read_message(stream: &mut TcpStream) -> std::io::Result<(char, Vec<u8>)> {
    let code = stream.read_u8().await?;
    let len = stream.read_i32().await?;
    let mut body = vec![0u8; len as usize - 4];
    stream.read_exact(&mut body).await?;
    Ok((code as char, body))
}

#[tokio::test(flavor = "multi_thread", worker_threads = 2)]
async fn admin_mid_message_at_shutdown() {
    let config = r#"
[general]
host = "127.0.0.1"
port = 6432
admin_username = "admin"
admin_password = "admin"
admin_auth_type = "trust"
validate_config = false

[pools.appdb.users.0]
username = "app_user"
password = "secret"
pool_size = 1

[pools.appdb.shards.0]
servers = [["127.0.0.1", 1, "primary"]]
database = "appdb"
"#;
    let path = std::env::temp_dir().join(format!("c17_side_{}.toml", std::process::id()));
    std::fs::write(&path, config).unwrap();
    pgcat::config::parse(path.to_str().unwrap()).await.unwrap();

    let listener = TcpListener::bind("127.0.0.1:0").await.unwrap();
    let port = listener.local_addr().unwrap().port();
    let (shutdown_tx, _) = broadcast::channel::<()>(1);
    let (drain_tx, _drain_rx) = mpsc::channel::<i32>(16);
    let tx = shutdown_tx.clone();
    tokio::spawn(async move {
        let (socket, _) = listener.accept().await.unwrap();
        let res = pgcat::client::client_entrypoint(
            socket, Arc::new(Mutex::new(HashMap::new())), tx.subscribe(), drain_tx, false, None, false,
        ).await;
        println!("client_entrypoint returned {:?}", res);
    });

    let mut s = TcpStream::connect(("127.0.0.1", port)).await.unwrap();
    let mut body = Vec::new();
    body.extend_from_slice(&196608i32.to_be_bytes());
    for p in ["user", "admin", "database", "pgcat"] { body.extend_from_slice(p.as_bytes()); body.push(0); }
    body.push(0);
    let mut pkt = ((body.len() as i32 + 4).to_be_bytes()).to_vec();
    pkt.extend_from_slice(&body);
    s.write_all(&pkt).await.unwrap();
    loop { let (c, _) = read_message(&mut s).await.unwrap(); if c == 'Z' { break; } }

    // 'Q' "SHOW VERSION"
    let q = b"SHOW VERSION\0";
    let mut m = vec![b'Q'];
    m.extend_from_slice(&((q.len() as i32 + 4).to_be_bytes()));
    m.extend_from_slice(q);

    // First half (header + 4 bytes), then the shutdown, then the rest.
    s.write_all(&m[..9]).await.unwrap();
    tokio::time::sleep(Duration::from_millis(200)).await;
    shutdown_tx.send(()).unwrap();
    tokio::time::sleep(Duration::from_millis(200)).await;
    s.write_all(&m[9..]).await.unwrap();

    let mut codes = String::new();
    loop {
        match timeout(Duration::from_secs(3), read_message(&mut s)).await {
            Ok(Ok((c, b))) => { codes.push(c); if c == 'E' { println!("error: {}", String::from_utf8_lossy(&b)); } if c == 'Z' { break; } }
            Ok(Err(e)) => { println!("connection closed: {}", e); break; }
            Err(_) => { println!("no answer within 3 s"); break; }
        }
    }
    println!("answer codes: {:?}", codes);
    assert!(codes.ends_with("Z") && codes.contains('D'), "C17: an admin client keeps working during a graceful shutdown - its SHOW VERSION, half sent when the shutdown was broadcast, was not answered: {:?}", codes);
}

//! D47 (C05): Bind / Execute of a statement prepared earlier runs where the *previous* statement was routed.
//!
//! The role is inferred when a Parse or a simple Query is read. A client that prepares its statements once
//! and afterwards only sends Bind / Execute / Sync (what every driver does, and what
//! prepared_statements_cache_size exists for) sends nothing that is inferred: the batch is checked out with
//! whatever role the last inferred statement left behind. After `Parse w = INSERT ..` (primary) and a
//! `SELECT 1` (replica), `Bind w / Execute / Sync` takes a replica: pgcat prepares the INSERT there and
//! executes it - a write on a replica.
//!
//!   cargo test --offline --test d47_c05_bind_of_prepared_write

use std::sync::{Arc, Mutex};

use bytes::{BufMut, BytesMut};
use tokio::io::{AsyncReadExt, AsyncWriteExt, DuplexStream};
use tokio::net::{TcpListener, TcpStream};

use pgcat::messages::simple_query;
use pgcat::pool::{ClientServerMap, ConnectionPool};
use pgcat::query_router::QueryRouter;

type Log = Arc<Mutex<Vec<String>>>;

fn msg(code: u8, body: &[u8]) -> BytesMut {
    let mut m = BytesMut::new();
    m.put_u8(code);
    m.put_i32(body.len() as i32 + 4);
    m.put_slice(body);
    m
}

fn param_status(key: &str, value: &str) -> BytesMut {
    let mut body = Vec::new();
    body.extend_from_slice(key.as_bytes());
    body.push(0);
    body.extend_from_slice(value.as_bytes());
    body.push(0);
    msg(b'S', &body)
}

/// Minimal PostgreSQL backend: accepts everything, records the text of every 'Q'.
async fn fake_backend_connection(mut stream: TcpStream, log: Log) {
    // startup packet
    let len = match stream.read_i32().await {
        Ok(len) => len,
        Err(_) => return,
    };
    let mut startup = vec![0u8; len as usize - 4];
    if stream.read_exact(&mut startup).await.is_err() {
        return;
    }

    let mut out = BytesMut::new();
    out.put(msg(b'R', &0i32.to_be_bytes())); // AuthenticationOk
    out.put(param_status("server_version", "14.0"));
    out.put(param_status("client_encoding", "UTF8"));
    out.put(param_status("DateStyle", "ISO, MDY"));
    out.put(param_status("TimeZone", "Etc/UTC"));
    out.put(param_status("standard_conforming_strings", "on"));
    out.put(param_status("application_name", "pgcat"));
    let mut key = Vec::new();
    key.extend_from_slice(&1234i32.to_be_bytes());
    key.extend_from_slice(&5678i32.to_be_bytes());
    out.put(msg(b'K', &key)); // BackendKeyData
    out.put(msg(b'Z', b"I")); // ReadyForQuery
    if stream.write_all(&out).await.is_err() {
        return;
    }

    loop {
        let code = match stream.read_u8().await {
            Ok(code) => code,
            Err(_) => return,
        };
        let len = match stream.read_i32().await {
            Ok(len) => len,
            Err(_) => return,
        };
        let mut body = vec![0u8; len as usize - 4];
        if stream.read_exact(&mut body).await.is_err() {
            return;
        }

        match code {
            b'Q' => {
                let sql = String::from_utf8_lossy(&body[..body.len().saturating_sub(1)]).to_string();
                log.lock().unwrap().push(sql);

                let mut out = BytesMut::new();
                out.put(msg(b'C', b"OK\0")); // CommandComplete
                out.put(msg(b'Z', b"I"));
                if stream.write_all(&out).await.is_err() {
                    return;
                }
            }
            b'P' => {
                // Parse: statement name, query text, parameter types
                let name_end = body.iter().position(|b| *b == 0).unwrap();
                let rest = &body[name_end + 1..];
                let q_end = rest.iter().position(|b| *b == 0).unwrap();
                log.lock().unwrap().push(String::from_utf8_lossy(&rest[..q_end]).to_string());
                if stream.write_all(&msg(b'1', b"")).await.is_err() {
                    return;
                }
            }
            b'B' => {
                // Bind: portal name, statement name
                let portal_end = body.iter().position(|b| *b == 0).unwrap();
                let rest = &body[portal_end + 1..];
                let name_end = rest.iter().position(|b| *b == 0).unwrap();
                log.lock().unwrap().push(format!("Bind {}", String::from_utf8_lossy(&rest[..name_end])));
                if stream.write_all(&msg(b'2', b"")).await.is_err() {
                    return;
                }
            }
            b'E' => {
                if stream.write_all(&msg(b'C', b"OK\0")).await.is_err() {
                    return;
                }
            }
            b'S' => {
                if stream.write_all(&msg(b'Z', b"I")).await.is_err() {
                    return;
                }
            }
            b'X' => return,
            _ => (),
        }
    }
}

async fn fake_backend() -> (u16, Log) {
    let listener = TcpListener::bind("127.0.0.1:0").await.unwrap();
    let port = listener.local_addr().unwrap().port();
    let log: Log = Arc::new(Mutex::new(Vec::new()));

    let accept_log = log.clone();
    tokio::spawn(async move {
        loop {
            let (stream, _) = match listener.accept().await {
                Ok(conn) => conn,
                Err(_) => return,
            };
            tokio::spawn(fake_backend_connection(stream, accept_log.clone()));
        }
    });

    (port, log)
}

/// A client session with pgcat: Client::startup + Client::handle on one end of a duplex pipe.
struct Session {
    pipe: DuplexStream,
}

impl Session {
    async fn connect(
        database: &str,
        user: &str,
        client_server_map: ClientServerMap,
        shutdown: &tokio::sync::broadcast::Sender<()>,
    ) -> Session {
        let (ours, theirs) = tokio::io::duplex(1 << 16);
        let (read, write) = tokio::io::split(theirs);

        // The startup message after the length and the protocol version.
        let mut params = BytesMut::new();
        for s in ["user", user, "database", database] {
            params.put_slice(s.as_bytes());
            params.put_u8(0);
        }
        params.put_u8(0);

        let shutdown_rx = shutdown.subscribe();
        tokio::spawn(async move {
            let mut client = pgcat::client::Client::startup(
                read,
                write,
                "127.0.0.1:55555".parse().unwrap(),
                params,
                client_server_map,
                shutdown_rx,
                false,
            )
            .await
            .expect("client startup");

            let _ = client.handle().await;
        });

        let mut session = Session { pipe: ours };
        session.read_until_ready().await; // AuthenticationOk ... ReadyForQuery
        session
    }

    /// Returns the message codes received up to and including ReadyForQuery.
    async fn read_until_ready(&mut self) -> Vec<char> {
        let mut codes = Vec::new();
        loop {
            let code = self.pipe.read_u8().await.expect("pgcat closed the connection");
            let len = self.pipe.read_i32().await.unwrap();
            let mut body = vec![0u8; len as usize - 4];
            self.pipe.read_exact(&mut body).await.unwrap();
            codes.push(code as char);
            if code == b'Z' {
                return codes;
            }
        }
    }

    async fn query(&mut self, sql: &str) -> Vec<char> {
        self.pipe.write_all(&simple_query(sql)).await.unwrap();
        let codes = tokio::time::timeout(std::time::Duration::from_secs(20), self.read_until_ready())
            .await
            .expect("no answer from pgcat");
        assert!(
            !codes.contains(&'E'),
            "pgcat answered `{}` with an error ({:?})",
            sql,
            codes
        );
        codes
    }
}

fn count(log: &Log, needle: &str) -> usize {
    log.lock()
        .unwrap()
        .iter()
        .filter(|sql| sql.contains(needle))
        .count()
}

fn cstr(b: &mut BytesMut, s: &str) {
    b.put_slice(s.as_bytes());
    b.put_u8(0);
}

fn parse_named(name: &str, query: &str) -> BytesMut {
    let mut b = BytesMut::new();
    cstr(&mut b, name);
    cstr(&mut b, query);
    b.put_i16(0);
    msg(b'P', &b)
}

fn bind_named(name: &str) -> BytesMut {
    let mut b = BytesMut::new();
    cstr(&mut b, "");
    cstr(&mut b, name);
    b.put_i16(0);
    b.put_i16(0);
    b.put_i16(0);
    msg(b'B', &b)
}

fn execute() -> BytesMut {
    let mut b = BytesMut::new();
    cstr(&mut b, "");
    b.put_i32(0);
    msg(b'E', &b)
}

#[tokio::test(flavor = "multi_thread", worker_threads = 2)]
async fn a_prepared_write_executed_later_runs_on_the_primary() {
    QueryRouter::setup();

    let (primary_port, primary_log) = fake_backend().await;
    let (replica_port, replica_log) = fake_backend().await;

    let config = format!(
        r#"
[general]
host = "127.0.0.1"
port = 6432
admin_username = "admin"
admin_password = "admin"
validate_config = false
healthcheck_delay = 600000

[pools.db]
pool_mode = "transaction"
default_role = "replica"
query_parser_enabled = true
query_parser_read_write_splitting = true
primary_reads_enabled = false
prepared_statements_cache_size = 100

[pools.db.users.0]
username = "app"
password = "app"
auth_type = "trust"
pool_size = 5

[pools.db.shards.0]
servers = [["127.0.0.1", {primary}, "primary"], ["127.0.0.1", {replica}, "replica"]]
database = "postgres"
"#,
        primary = primary_port,
        replica = replica_port
    );
    let path = std::env::temp_dir().join(format!("d47_c05_{}.toml", std::process::id()));
    std::fs::write(&path, config).unwrap();
    pgcat::config::parse(path.to_str().unwrap()).await.expect("config");
    let client_server_map = ClientServerMap::default();
    ConnectionPool::from_config(client_server_map.clone()).await.expect("pools");
    let (shutdown, _keep) = tokio::sync::broadcast::channel::<()>(1);
    let _ = std::fs::remove_file(&path);

    let mut session = Session::connect("db", "app", client_server_map.clone(), &shutdown).await;

    // the driver prepares its statements: a write and a read
    let mut batch = BytesMut::new();
    for m in [parse_named("w", "INSERT INTO d47_orders (id) VALUES (1)"), bind_named("w"), execute(), msg(b'S', b"")] {
        batch.put(m);
    }
    session.pipe.write_all(&batch).await.unwrap();
    session.read_until_ready().await;
    let mut batch = BytesMut::new();
    for m in [parse_named("r", "SELECT 1"), bind_named("r"), execute(), msg(b'S', b"")] {
        batch.put(m);
    }
    session.pipe.write_all(&batch).await.unwrap();
    session.read_until_ready().await;
    assert_eq!((count(&primary_log, "d47_orders"), count(&replica_log, "d47_orders")), (1, 0), "the first execution is routed by its Parse");

    // from now on it only executes them
    for _ in 0..3 {
        let mut batch = BytesMut::new();
        for m in [bind_named("w"), execute(), msg(b'S', b"")] {
            batch.put(m);
        }
        session.pipe.write_all(&batch).await.unwrap();
        session.read_until_ready().await;
        let mut batch = BytesMut::new();
        for m in [bind_named("r"), execute(), msg(b'S', b"")] {
            batch.put(m);
        }
        session.pipe.write_all(&batch).await.unwrap();
        session.read_until_ready().await;
    }

    // the reads are not dragged to the primary by the writes before them
    let read_statement = {
        let log = replica_log.lock().unwrap();
        let at = log.iter().position(|l| l == "SELECT 1").expect("the read was prepared on the replica");
        log[at + 1].clone() // its first Bind follows its Parse: `Bind PGCAT_n`
    };
    assert!(read_statement.starts_with("Bind "), "{:?}", read_statement);
    assert_eq!(count(&primary_log, &read_statement), 0, "the prepared SELECT was executed on the primary");
    assert_eq!(count(&replica_log, &read_statement), 4, "the prepared SELECT runs on the replica every time");

    let on_replica = count(&replica_log, "d47_orders");
    assert_eq!(
        on_replica, 0,
        "C05: the prepared INSERT was sent to the replica (it was prepared there {} time(s) in order to be executed there)",
        on_replica
    );
}

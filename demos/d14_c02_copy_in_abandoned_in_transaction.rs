// Demonstration for defect D14 (C02): copy to /repo/tests/ and run
//   cargo test --offline --test d14_c02_copy_in_abandoned_in_transaction
//
// A client does `BEGIN; COPY t FROM STDIN` and vanishes. At check-in pgcat sends `ROLLBACK` as a simple
// Query. The fake backend below does what PostgreSQL does in copy-in mode (protocol docs, "COPY
// Operations"; CopyGetData in copyfromparse.c): any message other than CopyData/CopyDone/CopyFail/
// Flush/Sync is *consumed* as a protocol violation that aborts the COPY - ErrorResponse, then, for a
// COPY started by a simple Query, ReadyForQuery with status 'E' (failed transaction block). The
// ROLLBACK text is never executed.
//
// Before the `fix:` commit checkin_cleanup did not look at the transaction state again (Server::query
// returns Ok whatever the server answered), the ErrorResponse had cleared in_copy_mode so the copy-mode
// test passed too, and the connection went back to the pool inside a failed transaction block: every
// statement of the next client fails with 25P02.
use std::sync::Arc;

use bytes::{BufMut, BytesMut};
use tokio::io::{AsyncReadExt, AsyncWriteExt};
use tokio::net::TcpListener;

use pgcat::config::{Address, User};
use pgcat::messages::simple_query;
use pgcat::server::Server;
use pgcat::stats::ServerStats;

fn msg(code: u8, body: &[u8]) -> BytesMut {
    let mut m = BytesMut::new();
    m.put_u8(code);
    m.put_i32(body.len() as i32 + 4);
    m.put_slice(body);
    m
}

fn ps(k: &str, v: &str) -> BytesMut {
    let mut b = Vec::new();
    b.extend_from_slice(k.as_bytes());
    b.push(0);
    b.extend_from_slice(v.as_bytes());
    b.push(0);
    msg(b'S', &b)
}

fn error(code: &str, text: &str) -> BytesMut {
    let mut b = Vec::new();
    for (k, v) in [(b'S', "ERROR"), (b'V', "ERROR"), (b'C', code), (b'M', text)] {
        b.push(k);
        b.extend_from_slice(v.as_bytes());
        b.push(0);
    }
    b.push(0);
    msg(b'E', &b)
}

#[derive(Clone, Copy, PartialEq, Debug)]
enum Tx {
    Idle,
    InBlock,
    Failed,
}

async fn backend() -> (u16, tokio::sync::mpsc::UnboundedReceiver<String>) {
    let listener = TcpListener::bind("127.0.0.1:0").await.unwrap();
    let port = listener.local_addr().unwrap().port();
    let (tx_log, rx_log) = tokio::sync::mpsc::unbounded_channel::<String>();

    tokio::spawn(async move {
        let (mut s, _) = listener.accept().await.unwrap();
        let len = s.read_i32().await.unwrap();
        let mut startup = vec![0u8; len as usize - 4];
        s.read_exact(&mut startup).await.unwrap();
        let mut hello = BytesMut::new();
        hello.put(msg(b'R', &0i32.to_be_bytes()));
        for (k, v) in [("client_encoding", "UTF8"), ("DateStyle", "ISO, MDY"), ("TimeZone", "Etc/UTC"), ("standard_conforming_strings", "on"), ("application_name", "pgcat")] {
            hello.put(ps(k, v));
        }
        let mut kd = BytesMut::new();
        kd.put_i32(1);
        kd.put_i32(2);
        hello.put(msg(b'K', &kd));
        hello.put(msg(b'Z', b"I"));
        s.write_all(&hello).await.unwrap();

        let mut tx = Tx::Idle;
        let mut copy_in = false;
        let mut search_path = String::from("public");
        loop {
            let code = match s.read_u8().await { Ok(c) => c, Err(_) => return };
            let len = s.read_i32().await.unwrap();
            let mut body = vec![0u8; len as usize - 4];
            s.read_exact(&mut body).await.unwrap();
            let status = |tx: Tx| match tx { Tx::Idle => b"I", Tx::InBlock => b"T", Tx::Failed => b"E" };
            let mut r = BytesMut::new();
            if copy_in {
                match code {
                    b'd' | b'H' | b'S' => continue,
                    b'c' => { copy_in = false; r.put(msg(b'C', b"COPY 0\0")); r.put(msg(b'Z', status(tx))); }
                    b'f' => { copy_in = false; if tx == Tx::InBlock { tx = Tx::Failed; } r.put(error("57014", "COPY from stdin failed")); r.put(msg(b'Z', status(tx))); }
                    other => {
                        // the message is consumed, its content is not executed
                        let _ = tx_log.send(format!("copy-in aborted by message '{}' ({} bytes), content NOT executed", other as char, body.len()));
                        copy_in = false;
                        if tx == Tx::InBlock { tx = Tx::Failed; }
                        r.put(error("08P01", &format!("unexpected message type 0x{:02X} during COPY from stdin", other)));
                        r.put(msg(b'Z', status(tx)));
                    }
                }
                s.write_all(&r).await.unwrap();
                continue;
            }
            if code != b'Q' {
                continue;
            }
            let q = String::from_utf8_lossy(&body[..body.len() - 1]).trim().trim_end_matches(';').to_uppercase();
            let _ = tx_log.send(format!("Query {:?} in state {:?}", q, tx));
            if tx == Tx::Failed && !(q.starts_with("ROLLBACK") || q.starts_with("COMMIT") || q.starts_with("ABORT")) {
                r.put(error("25P02", "current transaction is aborted, commands ignored until end of transaction block"));
            } else if q.starts_with("BEGIN") {
                tx = Tx::InBlock;
                r.put(msg(b'C', b"BEGIN\0"));
            } else if q.starts_with("ROLLBACK") || q.starts_with("ABORT") || q.starts_with("COMMIT") {
                tx = Tx::Idle;
                r.put(msg(b'C', b"ROLLBACK\0"));
            } else if q.starts_with("SET SEARCH_PATH TO ") {
                search_path = q["SET SEARCH_PATH TO ".len()..].to_lowercase();
                r.put(msg(b'C', b"SET\0"));
            } else if q.contains("RESET ALL") {
                search_path = String::from("public");
                r.put(msg(b'C', b"RESET\0"));
            } else if q.starts_with("SHOW SEARCH_PATH") {
                let _ = tx_log.send(format!("search_path is {}", search_path));
                r.put(msg(b'C', b"SHOW\0"));
            } else if q.starts_with("COPY") && q.contains("FROM STDIN") {
                copy_in = true;
                let mut g = BytesMut::new();
                g.put_u8(0);
                g.put_i16(0);
                s.write_all(&msg(b'G', &g)).await.unwrap();
                continue;
            } else {
                r.put(msg(b'C', b"SELECT 1\0"));
            }
            r.put(msg(b'Z', status(tx)));
            s.write_all(&r).await.unwrap();
        }
    });

    (port, rx_log)
}

#[tokio::test]
async fn connection_abandoned_in_copy_in_inside_a_transaction_is_not_reused_as_is() {
    let (port, mut rx_log) = backend().await;
    let address = Address { host: "127.0.0.1".into(), port, ..Default::default() };
    let user = User { password: Some("x".into()), ..Default::default() };
    let mut server = Server::startup(
        &address, &user, "db", Default::default(), Arc::new(ServerStats::default()),
        Arc::new(parking_lot::RwLock::new(None)), true, false, 0,
    ).await.unwrap();

    // what Client::handle does for the client's traffic
    server.claim(1, 1);
    server.query("BEGIN").await.unwrap();
    assert!(server.in_transaction());
    server.send(&simple_query("COPY t FROM STDIN")).await.unwrap();
    server.recv(None).await.unwrap();
    assert!(server.in_copy_mode(), "CopyInResponse puts the connection in copy mode");

    // the client is gone: check-in
    let cleaned = server.checkin_cleanup().await;

    let mut log = vec![];
    while let Ok(l) = rx_log.try_recv() {
        log.push(l);
    }
    let reusable = cleaned.is_ok() && !server.is_bad();
    assert!(
        !(reusable && server.in_transaction()),
        "checkin_cleanup returned {:?}, is_bad() = {}, yet the server is still inside a (failed) transaction block: \
         the next client inherits it\nbackend log:\n{}",
        cleaned, server.is_bad(), log.join("\n")
    );
}

// D25: the same mechanism without a transaction block. The session is dirty (SET), the client vanishes
// during an autocommit COPY FROM STDIN: the `RESET ROLE;RESET ALL;` of checkin_cleanup is consumed as the
// protocol violation that ends the COPY (ErrorResponse clears in_copy_mode, ReadyForQuery 'I'), the dirty
// marks are dropped although nothing was reset, and the next client inherits search_path.
#[tokio::test]
async fn dirty_connection_abandoned_in_copy_in_is_not_reused_with_the_old_settings() {
    let (port, mut rx_log) = backend().await;
    let address = Address { host: "127.0.0.1".into(), port, ..Default::default() };
    let user = User { password: Some("x".into()), ..Default::default() };
    let mut server = Server::startup(
        &address, &user, "db", Default::default(), Arc::new(ServerStats::default()),
        Arc::new(parking_lot::RwLock::new(None)), true, false, 0,
    ).await.unwrap();

    server.claim(1, 1);
    server.send(&simple_query("SET search_path TO evil")).await.unwrap();
    server.recv(None).await.unwrap();
    server.send(&simple_query("COPY t FROM STDIN")).await.unwrap();
    server.recv(None).await.unwrap();
    assert!(server.in_copy_mode());

    let cleaned = server.checkin_cleanup().await;
    let reusable = cleaned.is_ok() && !server.is_bad();
    if reusable {
        // what the next client would see
        server.query("SHOW search_path").await.unwrap();
    }
    let mut log = vec![];
    while let Ok(l) = rx_log.try_recv() {
        log.push(l);
    }
    assert!(
        !(reusable && log.iter().any(|l| l == "search_path is evil")),
        "checkin_cleanup returned {:?}, is_bad() = {}: the connection is reused and still has the previous client's search_path\nbackend log:\n{}",
        cleaned, server.is_bad(), log.join("\n")
    );
}

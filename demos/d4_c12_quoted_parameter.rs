// Demonstration for defect D4 (C12): copy to /repo/tests/ and run
//   cargo test --offline --test d4_c12_quoted_parameter
// A fake PostgreSQL backend records the statement that Server::sync_parameters sends for a client
// whose application_name contains a quote and a backslash. Before the `fix:` commit the statement is
// `SET application_name TO 'O'Reilly\x';` (a syntax error that pgcat swallows, so the server keeps
// the previous client's value); after it the literal is well formed and decodes to the value.
use std::sync::Arc;

use bytes::{BufMut, BytesMut};
use tokio::io::{AsyncReadExt, AsyncWriteExt};
use tokio::net::TcpListener;

use pgcat::config::{Address, User};
use pgcat::server::{Server, ServerParameters};
use pgcat::stats::ServerStats;

fn msg(code: u8, body: &[u8]) -> BytesMut {
    let mut m = BytesMut::new();
    m.put_u8(code);
    m.put_i32(body.len() as i32 + 4);
    m.put_slice(body);
    m
}

fn ps(k: &str, v: &str) -> BytesMut {
    let mut b = Vec::new();
    b.extend_from_slice(k.as_bytes());
    b.push(0);
    b.extend_from_slice(v.as_bytes());
    b.push(0);
    msg(b'S', &b)
}

/// Decode a PostgreSQL string constant ('..' with standard_conforming_strings=on, or E'..').
fn decode_literal(lit: &str) -> Option<String> {
    let (escape, body) = if let Some(r) = lit.strip_prefix("E'") { (true, r) } else { (false, lit.strip_prefix('\'')?) };
    let body = body.strip_suffix('\'')?;
    let mut out = String::new();
    let mut it = body.chars().peekable();
    while let Some(c) = it.next() {
        match c {
            '\'' => {
                if it.next() != Some('\'') {
                    return None; // unescaped quote inside the constant
                }
                out.push('\'');
            }
            '\\' if escape => out.push(it.next()?),
            c => out.push(c),
        }
    }
    Some(out)
}

#[tokio::test]
async fn parameter_values_with_quotes_reach_the_server() {
    let listener = TcpListener::bind("127.0.0.1:0").await.unwrap();
    let port = listener.local_addr().unwrap().port();
    let (tx, mut rx) = tokio::sync::mpsc::unbounded_channel::<String>();

    tokio::spawn(async move {
        let (mut s, _) = listener.accept().await.unwrap();
        let len = s.read_i32().await.unwrap();
        let mut startup = vec![0u8; len as usize - 4];
        s.read_exact(&mut startup).await.unwrap();
        let mut hello = BytesMut::new();
        hello.put(msg(b'R', &0i32.to_be_bytes()));
        for (k, v) in [("client_encoding", "UTF8"), ("DateStyle", "ISO, MDY"), ("TimeZone", "Etc/UTC"), ("standard_conforming_strings", "on"), ("application_name", "previous client")] {
            hello.put(ps(k, v));
        }
        let mut kd = BytesMut::new();
        kd.put_i32(1);
        kd.put_i32(2);
        hello.put(msg(b'K', &kd));
        hello.put(msg(b'Z', b"I"));
        s.write_all(&hello).await.unwrap();
        loop {
            let code = match s.read_u8().await { Ok(c) => c, Err(_) => return };
            let len = s.read_i32().await.unwrap();
            let mut body = vec![0u8; len as usize - 4];
            s.read_exact(&mut body).await.unwrap();
            if code == b'Q' {
                let q = String::from_utf8_lossy(&body[..body.len() - 1]).to_string();
                let _ = tx.send(q);
                let mut r = BytesMut::new();
                r.put(msg(b'C', b"SET\0"));
                r.put(msg(b'Z', b"I"));
                s.write_all(&r).await.unwrap();
            }
        }
    });

    let address = Address { host: "127.0.0.1".into(), port, ..Default::default() };
    let user = User { password: Some("x".into()), ..Default::default() };
    let mut server = Server::startup(
        &address, &user, "db", Default::default(), Arc::new(ServerStats::default()),
        Arc::new(parking_lot::RwLock::new(None)), true, false, 0,
    ).await.unwrap();

    let wanted = "O'Reilly \\x";
    let mut params = ServerParameters::new();
    params.set_param("application_name".to_string(), wanted.to_string(), false);
    server.sync_parameters(&params).await.unwrap();

    let sent = rx.recv().await.unwrap();
    // find the application_name assignment and decode its literal
    let stmt = sent.split(';').find(|s| s.contains("application_name")).expect("no SET application_name sent");
    let lit = stmt.split(" TO ").nth(1).expect("no value").trim();
    assert_eq!(decode_literal(lit).as_deref(), Some(wanted), "statement sent to the server: {}", sent);
}

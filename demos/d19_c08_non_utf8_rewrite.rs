// Demonstration for defect D19 (C08): copy to /repo/tests/ and run
//   cargo test --offline --test d19_c08_non_utf8_rewrite
// With statement caching on, pgcat rewrites Parse and Bind. The rewritten message may differ from the
// client's only in the statement name and the length field. Before the `fix:` commit every string of the
// message went through String::from_utf8_lossy and back:
//   * the query text of a Parse sent by a client whose client_encoding is not UTF-8 (LATIN1 'é' = 0xE9)
//     was forwarded with the byte replaced by U+FFFD (EF BF BD);
//   * `SELECT 'é'` and `SELECT 'è'` (0xE9 / 0xE8) had the same cache key: the second client's statement
//     shared the first one's server-side statement;
//   * Bind::rename re-encoded the portal name from the lossy string and computed the new length from the
//     lossy statement name: the frame it produced did not have the length it announced, the server
//     reads garbage after it and closes the connection (for a replica that means a ban).
use bytes::{Buf, BufMut, BytesMut};
use pgcat::messages::{Bind, Parse};

fn msg(code: u8, body: &[u8]) -> BytesMut {
    let mut m = BytesMut::new();
    m.put_u8(code);
    m.put_i32(body.len() as i32 + 4);
    m.put_slice(body);
    m
}

fn parse_msg(name: &[u8], query: &[u8], types: &[i32]) -> BytesMut {
    let mut b = BytesMut::new();
    b.put_slice(name);
    b.put_u8(0);
    b.put_slice(query);
    b.put_u8(0);
    b.put_i16(types.len() as i16);
    for t in types {
        b.put_i32(*t);
    }
    msg(b'P', &b)
}

fn bind_msg(portal: &[u8], statement: &[u8], tail: &[u8]) -> BytesMut {
    let mut b = BytesMut::new();
    b.put_slice(portal);
    b.put_u8(0);
    b.put_slice(statement);
    b.put_u8(0);
    b.put_slice(tail);
    msg(b'B', &b)
}

/// (declared length, cstrings..) of a frame; panics if the frame is not as long as it says
fn split(frame: &BytesMut, strings: usize) -> (Vec<Vec<u8>>, Vec<u8>) {
    let mut b = &frame[..];
    let _code = b.get_u8();
    let len = b.get_i32() as usize;
    assert_eq!(len, frame.len() - 1, "the length field does not match the frame: {:?}", frame);
    let mut out = vec![];
    for _ in 0..strings {
        let end = b.iter().position(|x| *x == 0).expect("nul");
        out.push(b[..end].to_vec());
        b.advance(end + 1);
    }
    (out, b.to_vec())
}

#[test]
fn rewritten_parse_keeps_the_query_bytes() {
    let query = b"SELECT '\xE9t\xE9'"; // LATIN1
    let original = parse_msg(b"s1", query, &[23]);
    let parse = Parse::try_from(&original).unwrap().rewrite();
    let rewritten: BytesMut = (&parse).try_into().unwrap();
    let (strings, rest) = split(&rewritten, 2);
    assert!(strings[0].starts_with(b"PGCAT_"));
    assert_eq!(strings[1], query.to_vec(), "the query text was changed by the rewrite");
    let (_, orig_rest) = split(&original, 2);
    assert_eq!(rest, orig_rest);
}

#[test]
fn different_texts_have_different_cache_keys() {
    let a = Parse::try_from(&parse_msg(b"s", b"SELECT '\xE9'", &[])).unwrap();
    let b = Parse::try_from(&parse_msg(b"s", b"SELECT '\xE8'", &[])).unwrap();
    assert_ne!(a.get_hash(), b.get_hash(), "two different statements share a cache key");
}

#[test]
fn renamed_bind_is_well_framed_and_keeps_everything_else() {
    let tail = [0u8, 0, 0, 1, 0, 0, 0, 2, b'4', b'2', 0, 0]; // no format codes, one value "42", no result codes
    for (portal, statement) in [(&b"p\xE9"[..], &b"s1"[..]), (&b""[..], &b"s\xE9\xE8"[..]), (&b"\xFF\xFE"[..], &b"\xE9"[..])] {
        let original = bind_msg(portal, statement, &tail);
        let renamed = Bind::rename(original.clone(), "PGCAT_7").unwrap();
        let (strings, rest) = split(&renamed, 2);
        assert_eq!(strings[0], portal.to_vec(), "the portal name was changed");
        assert_eq!(strings[1], b"PGCAT_7".to_vec());
        assert_eq!(rest, tail.to_vec(), "the parameters were changed");
    }
}

//! D70 (C08, C03): a Parse that declares more than 32767 parameter types is mutilated on its way through the statement cache.
//!
//! The number of parameter types in a Parse message is a 16-bit count that PostgreSQL reads as unsigned (up to 65535
//! parameters; drivers such as pgx send one type per parameter). pgcat's decoder read it with `get_i16()` and looped
//! `0..num_params`: from 32768 on the count is negative, the loop does not run, the types are dropped - and the encoder
//! writes the count back verbatim, followed by no types at all. With prepared-statement caching on, every named Parse
//! goes through this decoder and encoder: a 160 kB Parse of a 40000-parameter bulk INSERT reaches the server as a
//! message of a few dozen bytes that announces 40000 types and carries none ("insufficient data left in message").
//! The Bind decoder (used to find the sharding key among the bound parameters) has the same three loops.
//!
//!   cargo test --offline --test d70_c08_many_parameters

use bytes::{BufMut, BytesMut};
use pgcat::messages::{Bind, Parse};

fn cstr(b: &mut BytesMut, s: &str) {
    b.put_slice(s.as_bytes());
    b.put_u8(0);
}

fn parse_message(name: &str, query: &str, types: &[i32]) -> BytesMut {
    let mut body = BytesMut::new();
    cstr(&mut body, name);
    cstr(&mut body, query);
    body.put_u16(types.len() as u16);
    for t in types {
        body.put_i32(*t);
    }
    let mut m = BytesMut::new();
    m.put_u8(b'P');
    m.put_i32(body.len() as i32 + 4);
    m.put(body);
    m
}

fn bind_message(portal: &str, statement: &str, values: usize) -> BytesMut {
    let mut body = BytesMut::new();
    cstr(&mut body, portal);
    cstr(&mut body, statement);
    body.put_u16(0); // all parameters in the default (text) format
    body.put_u16(values as u16);
    for i in 0..values {
        let v = (i % 10).to_string();
        body.put_i32(v.len() as i32);
        body.put_slice(v.as_bytes());
    }
    body.put_u16(0);
    let mut m = BytesMut::new();
    m.put_u8(b'B');
    m.put_i32(body.len() as i32 + 4);
    m.put(body);
    m
}

#[test]
fn a_parse_with_many_parameter_types_survives_the_statement_cache() {
    let mut failures = vec![];
    for n in [3usize, 32767, 32768, 40000, 65535] {
        let types = vec![23i32; n]; // int4
        let original = parse_message("bulk", "INSERT INTO t VALUES ($1)", &types);
        let decoded: Parse = (&original).try_into().expect("a well-formed Parse is decoded");
        let reencoded: BytesMut = decoded.try_into().expect("and encoded again");
        if reencoded != original {
            failures.push(format!(
                "Parse with {} parameter types: {} bytes in, {} bytes out of the decoder/encoder the statement cache puts every named Parse through",
                n,
                original.len(),
                reencoded.len()
            ));
        }
    }
    for n in [3usize, 32768, 40000] {
        let original = bind_message("", "bulk", n);
        let decoded: Bind = (&original).try_into().expect("a well-formed Bind is decoded");
        let reencoded: BytesMut = decoded.try_into().expect("and encoded again");
        if reencoded != original {
            failures.push(format!("Bind with {} parameter values: {} bytes in, {} bytes out", n, original.len(), reencoded.len()));
        }
    }
    assert!(failures.is_empty(), "C08: the rewritten message differs from the client's in more than the statement name:\n{}", failures.join("\n"));
}

// Demonstration for defect D11 (C11): copy to /repo/tests/ and run
//   cargo test --offline --test d11_c11_oversized_frames
// A client that announces a 2 GiB message (5 bytes on the wire) made read_message allocate and
// zero-fill 2 GiB before reading anything; an unauthenticated 2 GiB startup packet did the same in
// get_startup. Before the `fix:` commit the test below observes the allocation through a counting
// global allocator; after it the frames are refused without allocating.
use std::alloc::{GlobalAlloc, Layout, System};
use std::sync::atomic::{AtomicUsize, Ordering};

struct Counting;
static BIGGEST: AtomicUsize = AtomicUsize::new(0);

unsafe impl GlobalAlloc for Counting {
    unsafe fn alloc(&self, l: Layout) -> *mut u8 {
        BIGGEST.fetch_max(l.size(), Ordering::Relaxed);
        if l.size() > (1 << 30) {
            // do not really take 2 GiB from the sandbox: report failure like an exhausted host would
            return std::ptr::null_mut();
        }
        System.alloc(l)
    }
    unsafe fn dealloc(&self, p: *mut u8, l: Layout) {
        System.dealloc(p, l)
    }
    unsafe fn alloc_zeroed(&self, l: Layout) -> *mut u8 {
        BIGGEST.fetch_max(l.size(), Ordering::Relaxed);
        if l.size() > (1 << 30) {
            return std::ptr::null_mut();
        }
        System.alloc_zeroed(l)
    }
}

#[global_allocator]
static A: Counting = Counting;

#[tokio::test]
async fn oversized_length_field_is_refused_without_allocating() {
    // 'Q' + length 0x7fffffff, no body
    let frame: Vec<u8> = vec![b'Q', 0x7f, 0xff, 0xff, 0xff];
    let mut reader = &frame[..];
    BIGGEST.store(0, Ordering::Relaxed);
    let r = pgcat::messages::read_message(&mut reader).await;
    assert!(r.is_err());
    assert!(
        BIGGEST.load(Ordering::Relaxed) < (1 << 30),
        "read_message tried to allocate {} bytes for a 5-byte frame (allocation failure aborts the whole pooler)",
        BIGGEST.load(Ordering::Relaxed)
    );
}

//! D76 (C03) - KNOWN FINDING, not repaired: a client that ends a request with Flush instead of Sync is never answered, and
//! keeps a server connection while it waits.
//!
//! Flush ('H') is how a frontend asks for the replies to what it has sent so far without ending the batch - the documented way to
//! prepare a statement and look at its description before binding it (Parse, Describe, Flush), used by drivers' pipeline modes.
//! pgcat's message loops have no arm for 'H' (nor for FunctionCall 'F'): in the idle loop the message falls through to the
//! checkout, in the transaction loop it reaches `_ => error!("Unexpected code")` - nothing is sent to the server, the buffered
//! Parse and Describe stay in pgcat, the client waits for a ParseComplete that never comes, and the server connection that was
//! checked out for the Flush stays with this client (outside any transaction) until it sends something else or leaves.
//!
//! Harness of d52 (a fake backend that answers every extended-protocol message at once, as PostgreSQL does after a Flush).
//!   cargo test --offline --test d76_c03_flush_is_never_answered

use bytes::{Buf, BufMut, BytesMut};
use parking_lot::Mutex;
use std::collections::HashMap;
use std::io::Write;
use std::sync::Arc;
use std::time::Duration;
use tokio::io::{AsyncReadExt, AsyncWriteExt};
use tokio::net::{TcpListener, TcpStream};

// ---------------------------------------------------------------------------
// wire helpers
// ---------------------------------------------------------------------------

fn cstr(buf: &mut BytesMut, s: &str) {
    buf.put_slice(s.as_bytes());
    buf.put_u8(0);
}

fn msg(code: u8, body: &[u8]) -> BytesMut {
    let mut m = BytesMut::new();
    m.put_u8(code);
    m.put_i32(body.len() as i32 + 4);
    m.put_slice(body);
    m
}

fn read_cstr(buf: &mut &[u8]) -> String {
    let end = buf.iter().position(|b| *b == 0).expect("nul terminator");
    let s = String::from_utf8_lossy(&buf[..end]).to_string();
    buf.advance(end + 1);
    s
}

async fn read_msg(stream: &mut TcpStream) -> Option<(u8, Vec<u8>)> {
    let code = stream.read_u8().await.ok()?;
    let len = stream.read_i32().await.ok()?;
    let mut body = vec![0u8; len as usize - 4];
    stream.read_exact(&mut body).await.ok()?;
    Some((code, body))
}

// ---------------------------------------------------------------------------
// fake PostgreSQL backend
// ---------------------------------------------------------------------------

#[derive(Default)]
struct BackendLog {
    /// Human readable trace of everything the backend received, per connection.
    trace: Vec<String>,
    /// Number of prepared statements currently open on the (single) backend connection.
    open_statements: usize,
}

fn error_response(sqlstate: &str, message: &str) -> BytesMut {
    let mut body = BytesMut::new();
    body.put_u8(b'S');
    cstr(&mut body, "ERROR");
    body.put_u8(b'V');
    cstr(&mut body, "ERROR");
    body.put_u8(b'C');
    cstr(&mut body, sqlstate);
    body.put_u8(b'M');
    cstr(&mut body, message);
    body.put_u8(0);
    msg(b'E', &body)
}

async fn backend_connection(mut stream: TcpStream, conn_id: usize, log: Arc<Mutex<BackendLog>>) {
    // Startup packet (or SSLRequest / CancelRequest).
    loop {
        let len = match stream.read_i32().await {
            Ok(len) => len,
            Err(_) => return,
        };
        let mut body = vec![0u8; len as usize - 4];
        if stream.read_exact(&mut body).await.is_err() {
            return;
        }
        let code = (&body[..4]).get_i32();
        match code {
            80877103 => {
                // SSLRequest: not supported.
                let _ = stream.write_all(b"N").await;
                continue;
            }
            80877102 => return, // CancelRequest
            _ => break,
        }
    }

    let mut out = BytesMut::new();
    out.put(msg(b'R', &0i32.to_be_bytes()));
    for (k, v) in [
        ("server_version", "14.5"),
        ("server_encoding", "UTF8"),
        ("client_encoding", "UTF8"),
        ("DateStyle", "ISO, MDY"),
        ("TimeZone", "Etc/UTC"),
        ("standard_conforming_strings", "on"),
        ("application_name", "pgcat"),
        ("integer_datetimes", "on"),
    ] {
        let mut b = BytesMut::new();
        cstr(&mut b, k);
        cstr(&mut b, v);
        out.put(msg(b'S', &b));
    }
    let mut k = BytesMut::new();
    k.put_i32(4242 + conn_id as i32);
    k.put_i32(99);
    out.put(msg(b'K', &k));
    out.put(msg(b'Z', b"I"));
    if stream.write_all(&out).await.is_err() {
        return;
    }

    // name -> (query, parameter type oids)
    let mut statements: HashMap<String, (String, Vec<i32>)> = HashMap::new();
    // portal -> query
    let mut portals: HashMap<String, String> = HashMap::new();
    let mut skip_until_sync = false;

    while let Some((code, body)) = read_msg(&mut stream).await {
        let mut b: &[u8] = &body;
        let mut out = BytesMut::new();
        let note = |s: String| log.lock().trace.push(format!("[backend #{}] {}", conn_id, s));

        match code {
            b'X' => return,

            b'Q' => {
                let query = read_cstr(&mut b);
                note(format!("Query {:?}", query));
                let upper = query.trim().to_uppercase();
                let tag = if upper.starts_with("SET") {
                    "SET"
                } else if upper.contains("DEALLOCATE ALL") || upper.contains("DISCARD ALL") {
                    statements.clear();
                    "DEALLOCATE ALL"
                } else if upper.starts_with("RESET") {
                    "RESET"
                } else {
                    "SELECT 0"
                };
                let mut t = BytesMut::new();
                cstr(&mut t, tag);
                out.put(msg(b'C', &t));
                out.put(msg(b'Z', b"I"));
            }

            b'S' => {
                note("Sync".to_string());
                skip_until_sync = false;
                portals.clear();
                out.put(msg(b'Z', b"I"));
            }

            _ if skip_until_sync => {
                note(format!("(skipped '{}' after error)", code as char));
            }

            b'P' => {
                let name = read_cstr(&mut b);
                let query = read_cstr(&mut b);
                let n = b.get_i16();
                let types: Vec<i32> = (0..n).map(|_| b.get_i32()).collect();
                note(format!("Parse {:?} = {:?} {:?}", name, query, types));
                if !name.is_empty() && statements.contains_key(&name) {
                    note(format!("  -> ERROR 42P05 {:?} already exists", name));
                    out.put(error_response(
                        "42P05",
                        &format!("prepared statement \"{}\" already exists", name),
                    ));
                    skip_until_sync = true;
                } else {
                    statements.insert(name, (query, types));
                    out.put(msg(b'1', b""));
                }
            }

            b'B' => {
                let portal = read_cstr(&mut b);
                let name = read_cstr(&mut b);
                note(format!("Bind portal {:?} <- statement {:?}", portal, name));
                match statements.get(&name) {
                    Some((query, _)) => {
                        portals.insert(portal, query.clone());
                        out.put(msg(b'2', b""));
                    }
                    None => {
                        note(format!("  -> ERROR 26000 {:?} does not exist", name));
                        out.put(error_response(
                            "26000",
                            &format!("prepared statement \"{}\" does not exist", name),
                        ));
                        skip_until_sync = true;
                    }
                }
            }

            b'D' => {
                let target = b.get_u8();
                let name = read_cstr(&mut b);
                note(format!("Describe {} {:?}", target as char, name));
                if target == b'S' {
                    match statements.get(&name) {
                        Some((_, types)) => {
                            let mut t = BytesMut::new();
                            t.put_i16(types.len() as i16);
                            for ty in types {
                                t.put_i32(*ty);
                            }
                            out.put(msg(b't', &t));
                            out.put(msg(b'n', b""));
                        }
                        None => {
                            note(format!("  -> ERROR 26000 {:?} does not exist", name));
                            out.put(error_response(
                                "26000",
                                &format!("prepared statement \"{}\" does not exist", name),
                            ));
                            skip_until_sync = true;
                        }
                    }
                } else {
                    out.put(msg(b'n', b""));
                }
            }

            b'E' => {
                let portal = read_cstr(&mut b);
                note(format!("Execute portal {:?}", portal));
                match portals.get(&portal) {
                    Some(query) => {
                        let mut t = BytesMut::new();
                        cstr(&mut t, &format!("RAN {}", query));
                        out.put(msg(b'C', &t));
                    }
                    None => {
                        out.put(error_response(
                            "34000",
                            &format!("portal \"{}\" does not exist", portal),
                        ));
                        skip_until_sync = true;
                    }
                }
            }

            b'C' => {
                let target = b.get_u8();
                let name = read_cstr(&mut b);
                note(format!("Close {} {:?}", target as char, name));
                if target == b'S' {
                    statements.remove(&name);
                } else {
                    portals.remove(&name);
                }
                out.put(msg(b'3', b""));
            }

            other => {
                note(format!("unhandled message '{}'", other as char));
            }
        }

        log.lock().open_statements = statements.len();
        if !out.is_empty() && stream.write_all(&out).await.is_err() {
            return;
        }
    }
}

async fn start_fake_backend(log: Arc<Mutex<BackendLog>>) -> u16 {
    let listener = TcpListener::bind("127.0.0.1:0").await.unwrap();
    let port = listener.local_addr().unwrap().port();
    tokio::spawn(async move {
        let mut next_id = 0usize;
        loop {
            let (stream, _) = match listener.accept().await {
                Ok(s) => s,
                Err(_) => return,
            };
            let log = log.clone();
            let id = next_id;
            next_id += 1;
            tokio::spawn(backend_connection(stream, id, log));
        }
    });
    port
}

// ---------------------------------------------------------------------------
// pgcat in-process
// ---------------------------------------------------------------------------

async fn start_pgcat(backend_port: u16, cache_size: usize) -> u16 {
    let toml = format!(
        r#"
[general]
host = "127.0.0.1"
port = 6432
admin_username = "admin"
admin_password = "admin"
validate_config = false
connect_timeout = 2000
idle_timeout = 600000
healthcheck_timeout = 2000
healthcheck_delay = 600000
ban_time = 1
worker_threads = 2

[pools.db]
pool_mode = "transaction"
prepared_statements_cache_size = {}
query_parser_enabled = true

[pools.db.plugins]

[pools.db.plugins.table_access]
enabled = true
tables = ["secret"]

[pools.db.users.0]
username = "u"
password = "p"
auth_type = "trust"
pool_size = 1
min_pool_size = 0

[pools.db.shards.0]
servers = [["127.0.0.1", {}, "primary"]]
database = "db"
"#,
        cache_size, backend_port
    );

    let path = std::env::temp_dir().join(format!("c08_pgcat_{}.toml", std::process::id()));
    std::fs::File::create(&path)
        .unwrap()
        .write_all(toml.as_bytes())
        .unwrap();

    pgcat::config::parse(path.to_str().unwrap())
        .await
        .expect("config parses");

    let client_server_map: pgcat::pool::ClientServerMap = Arc::new(Mutex::new(HashMap::new()));
    pgcat::pool::ConnectionPool::from_config(client_server_map.clone())
        .await
        .expect("pool builds");

    let listener = TcpListener::bind("127.0.0.1:0").await.unwrap();
    let port = listener.local_addr().unwrap().port();

    let (shutdown_tx, _) = tokio::sync::broadcast::channel::<()>(1);
    let (drain_tx, mut drain_rx) = tokio::sync::mpsc::channel::<i32>(2048);
    tokio::spawn(async move { while drain_rx.recv().await.is_some() {} });

    tokio::spawn(async move {
        // Keep the sender alive for as long as the listener lives.
        let shutdown_tx = shutdown_tx;
        loop {
            let (stream, _) = match listener.accept().await {
                Ok(s) => s,
                Err(_) => return,
            };
            let map = client_server_map.clone();
            let shutdown_rx = shutdown_tx.subscribe();
            let drain_tx = drain_tx.clone();
            tokio::spawn(async move {
                let _ = pgcat::client::client_entrypoint(
                    stream,
                    map,
                    shutdown_rx,
                    drain_tx,
                    false,
                    None,
                    false,
                )
                .await;
            });
        }
    });

    port
}

// ---------------------------------------------------------------------------
// frontend (the application) helpers
// ---------------------------------------------------------------------------

fn fe_parse(name: &str, query: &str) -> BytesMut {
    let mut b = BytesMut::new();
    cstr(&mut b, name);
    cstr(&mut b, query);
    b.put_i16(0);
    msg(b'P', &b)
}

fn fe_bind(portal: &str, statement: &str) -> BytesMut {
    let mut b = BytesMut::new();
    cstr(&mut b, portal);
    cstr(&mut b, statement);
    b.put_i16(0); // parameter format codes
    b.put_i16(0); // parameter values
    b.put_i16(0); // result format codes
    msg(b'B', &b)
}

fn fe_execute(portal: &str) -> BytesMut {
    let mut b = BytesMut::new();
    cstr(&mut b, portal);
    b.put_i32(0);
    msg(b'E', &b)
}

fn fe_close_statement(name: &str) -> BytesMut {
    let mut b = BytesMut::new();
    b.put_u8(b'S');
    cstr(&mut b, name);
    msg(b'C', &b)
}

fn fe_sync() -> BytesMut {
    msg(b'S', b"")
}

/// What the application sees in answer to one batch (up to ReadyForQuery).
#[derive(Debug, Default)]
struct Reply {
    codes: String,
    ran: Vec<String>,
    errors: Vec<String>,
}

struct App {
    stream: TcpStream,
}

impl App {
    async fn connect(port: u16) -> App {
        let mut stream = TcpStream::connect(("127.0.0.1", port)).await.unwrap();
        let mut body = BytesMut::new();
        body.put_i32(196608);
        cstr(&mut body, "user");
        cstr(&mut body, "u");
        cstr(&mut body, "database");
        cstr(&mut body, "db");
        body.put_u8(0);
        let mut startup = BytesMut::new();
        startup.put_i32(body.len() as i32 + 4);
        startup.put(body);
        stream.write_all(&startup).await.unwrap();

        let mut app = App { stream };
        let reply = app.read_reply().await;
        assert!(
            reply.errors.is_empty(),
            "could not log in through pgcat: {:?}",
            reply
        );
        app
    }

    async fn read_reply(&mut self) -> Reply {
        let mut reply = Reply::default();
        loop {
            let (code, body) = tokio::time::timeout(Duration::from_secs(10), read_msg(&mut self.stream))
                .await
                .expect("timed out waiting for pgcat")
                .expect("pgcat closed the connection");
            reply.codes.push(code as char);
            match code {
                b'C' => {
                    let mut b: &[u8] = &body;
                    let tag = read_cstr(&mut b);
                    if let Some(q) = tag.strip_prefix("RAN ") {
                        reply.ran.push(q.to_string());
                    }
                }
                b'E' => {
                    let text = String::from_utf8_lossy(&body).replace('\0', " ");
                    reply.errors.push(text);
                }
                b'Z' => return reply,
                _ => (),
            }
        }
    }

    async fn batch(&mut self, messages: &[BytesMut]) -> Reply {
        let mut all = BytesMut::new();
        for m in messages {
            all.put_slice(m);
        }
        self.stream.write_all(&all).await.unwrap();
        self.read_reply().await
    }
}

// ---------------------------------------------------------------------------
// the scenario
// ---------------------------------------------------------------------------

fn fe_describe_statement(name: &str) -> BytesMut {
    let mut b = BytesMut::new();
    b.put_u8(b'S');
    cstr(&mut b, name);
    msg(b'D', &b)
}

#[tokio::test(flavor = "multi_thread", worker_threads = 2)]
async fn a_request_that_ends_with_flush_is_answered() {
    let log = Arc::new(Mutex::new(BackendLog::default()));
    let backend_port = start_fake_backend(log.clone()).await;
    let pgcat_port = start_pgcat(backend_port, 0).await; // statement cache off: messages are relayed as they are

    let mut app = App::connect(pgcat_port).await;

    // Parse, Describe, Flush: "prepare this and tell me what it looks like"
    let mut all = BytesMut::new();
    for m in [fe_parse("q1", "SELECT 1"), fe_describe_statement("q1"), msg(b'H', b"")] {
        all.put_slice(&m);
    }
    app.stream.write_all(&all).await.unwrap();

    let mut codes = String::new();
    loop {
        match tokio::time::timeout(Duration::from_secs(3), read_msg(&mut app.stream)).await {
            Ok(Some((code, _))) => {
                codes.push(code as char);
                if codes.len() >= 3 {
                    break;
                }
            }
            _ => break,
        }
    }
    let trace = log.lock().trace.join("\n");
    assert_eq!(
        codes, "1tn",
        "C03: the client sent Parse, Describe, Flush and is owed ParseComplete, ParameterDescription, NoData; after 3 s it has received {:?} - the server saw:\n{}",
        codes, trace
    );
}

//! D16 (C11, known finding, not repaired): one client's Query takes the whole pooler down.
//!
//! sqlparser's recursion limit (50) stops deeply *nested* input, but a long left-associative chain
//! `SELECT 1+1+1+ ... +1` is parsed by a loop into a left-deep expression tree. Walking and dropping
//! that tree is recursive, overflows the 2 MiB stack of the tokio worker, and a stack overflow is not a
//! task-local panic: the process gets SIGABRT and every client loses its connection.
//!
//! The test re-executes itself as a child "pooler" process (runtime built like src/main.rs builds it)
//! in front of a fake backend; a victim client must still be served after a hostile client sent the chain.
//! Needs the query parser enabled for the pool and query_parser_max_length unset (the default).
//!
//! Debug builds die from about 30 000 terms (60 kB); release builds from about 100 000 (200 kB).
//!   cargo test --offline --test d16_c11_long_expression_chain -- --nocapture      (D16_TERMS=... to vary)
//! Expected on the current tree: FAILS (that is the finding).

use std::collections::HashMap;
use std::process::Command;
use std::sync::Arc;
use std::time::Duration;

use bytes::{BufMut, BytesMut};
use tokio::io::{AsyncReadExt, AsyncWriteExt};
use tokio::net::{TcpListener, TcpStream};
use tokio::sync::{broadcast, mpsc};
use tokio::time::timeout;

const CHILD_ENV: &str = "C11_POOLER_CHILD";

/// Nesting depth of the hostile query. Override with D16_TERMS.
fn depth() -> usize {
    std::env::var("D16_TERMS")
        .ok()
        .and_then(|d| d.parse().ok())
        .unwrap_or(60000)
}

// ---------------------------------------------------------------- fake PostgreSQL backend

fn backend_msg(code: u8, body: &[u8]) -> BytesMut {
    let mut m = BytesMut::new();
    m.put_u8(code);
    m.put_i32(4 + body.len() as i32);
    m.put_slice(body);
    m
}

fn parameter_status(key: &str, value: &str) -> BytesMut {
    let mut body = Vec::new();
    body.extend_from_slice(key.as_bytes());
    body.push(0);
    body.extend_from_slice(value.as_bytes());
    body.push(0);
    backend_msg(b'S', &body)
}

async fn fake_backend_connection(mut s: TcpStream) -> std::io::Result<()> {
    // Startup packet.
    let len = s.read_i32().await?;
    let mut startup = vec![0u8; len as usize - 4];
    s.read_exact(&mut startup).await?;

    let mut hello = BytesMut::new();
    hello.put(backend_msg(b'R', &0i32.to_be_bytes())); // AuthenticationOk
    hello.put(parameter_status("server_version", "14.5"));
    hello.put(parameter_status("client_encoding", "UTF8"));
    hello.put(parameter_status("DateStyle", "ISO, MDY"));
    hello.put(parameter_status("TimeZone", "Etc/UTC"));
    hello.put(parameter_status("standard_conforming_strings", "on"));
    hello.put(parameter_status("application_name", "pgcat"));
    let mut key = Vec::new();
    key.extend_from_slice(&4242i32.to_be_bytes());
    key.extend_from_slice(&777i32.to_be_bytes());
    hello.put(backend_msg(b'K', &key));
    hello.put(backend_msg(b'Z', b"I"));
    s.write_all(&hello).await?;

    loop {
        let code = s.read_u8().await?;
        let len = s.read_i32().await?;
        let mut body = vec![0u8; len as usize - 4];
        s.read_exact(&mut body).await?;

        match code {
            b'Q' => {
                let mut reply = BytesMut::new();
                reply.put(backend_msg(b'C', b"SELECT 1\0"));
                reply.put(backend_msg(b'Z', b"I"));
                s.write_all(&reply).await?;
            }
            b'S' => s.write_all(&backend_msg(b'Z', b"I")).await?,
            b'X' => return Ok(()),
            _ => (),
        }
    }
}

async fn fake_backend() -> u16 {
    let listener = TcpListener::bind("127.0.0.1:0").await.unwrap();
    let port = listener.local_addr().unwrap().port();
    tokio::spawn(async move {
        loop {
            if let Ok((s, _)) = listener.accept().await {
                tokio::spawn(async move {
                    let _ = fake_backend_connection(s).await;
                });
            }
        }
    });
    port
}

// ---------------------------------------------------------------- the pooler, as in src/main.rs

async fn pooler(backend_port: u16) -> u16 {
    let config = format!(
        r#"
[general]
host = "127.0.0.1"
port = 6432
admin_username = "admin"
admin_password = "admin"
validate_config = false
worker_threads = 2

[pools.db]
pool_mode = "transaction"
default_role = "any"
query_parser_enabled = true
query_parser_read_write_splitting = true
primary_reads_enabled = true

[pools.db.users.0]
username = "app"
password = "app"
auth_type = "trust"
pool_size = 5

[pools.db.shards.0]
servers = [["127.0.0.1", {}, "primary"]]
database = "postgres"
"#,
        backend_port
    );

    let path = std::env::temp_dir().join(format!("c11_pgcat_{}.toml", std::process::id()));
    std::fs::write(&path, config).unwrap();
    pgcat::config::parse(path.to_str().unwrap())
        .await
        .expect("config");
    let _ = std::fs::remove_file(&path);

    pgcat::query_router::QueryRouter::setup();

    let client_server_map: pgcat::pool::ClientServerMap =
        Arc::new(parking_lot::Mutex::new(HashMap::new()));
    pgcat::pool::ConnectionPool::from_config(client_server_map.clone())
        .await
        .expect("pools");

    let listener = TcpListener::bind("127.0.0.1:0").await.unwrap();
    let port = listener.local_addr().unwrap().port();

    let (shutdown_tx, _) = broadcast::channel::<()>(1);
    let (drain_tx, mut drain_rx) = mpsc::channel::<i32>(2048);
    tokio::spawn(async move { while drain_rx.recv().await.is_some() {} });

    // The accept loop of src/main.rs: one tokio task per client.
    tokio::spawn(async move {
        loop {
            let (socket, _) = match listener.accept().await {
                Ok(c) => c,
                Err(_) => continue,
            };
            let shutdown_rx = shutdown_tx.subscribe();
            let drain_tx = drain_tx.clone();
            let client_server_map = client_server_map.clone();
            tokio::spawn(async move {
                let _ = pgcat::client::client_entrypoint(
                    socket,
                    client_server_map,
                    shutdown_rx,
                    drain_tx,
                    false,
                    None,
                    false,
                )
                .await;
            });
        }
    });

    port
}

// ---------------------------------------------------------------- clients

/// Read backend messages until ReadyForQuery; returns the message codes seen.
async fn until_ready(s: &mut TcpStream) -> std::io::Result<Vec<char>> {
    let mut seen = Vec::new();
    loop {
        let code = s.read_u8().await?;
        let len = s.read_i32().await?;
        let mut body = vec![0u8; len as usize - 4];
        s.read_exact(&mut body).await?;
        seen.push(code as char);
        if code == b'Z' {
            return Ok(seen);
        }
    }
}

async fn connect(port: u16) -> TcpStream {
    let mut s = TcpStream::connect(("127.0.0.1", port)).await.unwrap();
    let mut body = BytesMut::new();
    body.put_i32(196608);
    for kv in ["user", "app", "database", "db", "application_name", "c11"] {
        body.put_slice(kv.as_bytes());
        body.put_u8(0);
    }
    body.put_u8(0);
    let mut startup = BytesMut::new();
    startup.put_i32(4 + body.len() as i32);
    startup.put(body);
    s.write_all(&startup).await.unwrap();
    let seen = timeout(Duration::from_secs(10), until_ready(&mut s))
        .await
        .expect("startup timed out")
        .expect("startup failed");
    assert!(seen.contains(&'R') && seen.last() == Some(&'Z'), "{:?}", seen);
    s
}

fn simple_query(sql: &str) -> BytesMut {
    let mut m = BytesMut::new();
    m.put_u8(b'Q');
    m.put_i32(4 + sql.len() as i32 + 1);
    m.put_slice(sql.as_bytes());
    m.put_u8(0);
    m
}

async fn query(s: &mut TcpStream, sql: &str) -> Result<Vec<char>, String> {
    s.write_all(&simple_query(sql))
        .await
        .map_err(|e| e.to_string())?;
    match timeout(Duration::from_secs(10), until_ready(s)).await {
        Ok(Ok(seen)) => Ok(seen),
        Ok(Err(e)) => Err(e.to_string()),
        Err(_) => Err("timed out".into()),
    }
}

// ---------------------------------------------------------------- the scenario (child process)

#[test]
fn pooler_child() {
    if std::env::var(CHILD_ENV).is_err() {
        return; // only meaningful when started by the test below
    }

    // Same runtime as src/main.rs: multi-thread, default (2 MiB) worker stacks.
    let runtime = tokio::runtime::Builder::new_multi_thread()
        .worker_threads(2)
        .enable_all()
        .build()
        .unwrap();

    runtime.block_on(async {
        let backend_port = fake_backend().await;
        let port = pooler(backend_port).await;

        let mut victim = connect(port).await;
        let seen = query(&mut victim, "SELECT 1").await.expect("victim, first query");
        println!("victim served before the hostile query: {:?}", seen);

        let mut hostile = connect(port).await;
        let n = depth();
        let sql = format!("SELECT 1{}", "+1".repeat(n));
        println!("hostile client sends a {} byte query: a chain of {} additions", sql.len(), n);
        let outcome = query(&mut hostile, &sql).await;
        println!("hostile client got: {:?}", outcome);

        let seen = query(&mut victim, "SELECT 2")
            .await
            .expect("victim is no longer served");
        println!("VICTIM_STILL_SERVED {:?}", seen);

        let mut newcomer = connect(port).await;
        let seen = query(&mut newcomer, "SELECT 3")
            .await
            .expect("new client is not served");
        println!("NEW_CLIENT_SERVED {:?}", seen);
    });
}

// ---------------------------------------------------------------- the check (parent process)

#[test]
fn hostile_expression_chain_does_not_kill_the_pooler() {
    if std::env::var(CHILD_ENV).is_ok() {
        return;
    }

    let output = Command::new(std::env::current_exe().unwrap())
        .args(["pooler_child", "--exact", "--nocapture", "--test-threads=1"])
        .env(CHILD_ENV, "1")
        .output()
        .expect("could not start the pooler process");

    let stdout = String::from_utf8_lossy(&output.stdout);
    let stderr = String::from_utf8_lossy(&output.stderr);
    println!("--- pooler process stdout ---\n{}", stdout);
    println!("--- pooler process stderr ---\n{}", stderr);
    println!("--- pooler process status: {:?}", output.status);

    assert!(
        output.status.success(),
        "the pooler process died ({:?}) after one client sent a long chain of additions: every \
         other client lost its connection",
        output.status
    );
    assert!(stdout.contains("VICTIM_STILL_SERVED"));
    assert!(stdout.contains("NEW_CLIENT_SERVED"));
}

//! D44 (C14): a valid configuration whose pools could not be built at once never takes effect.
//!
//! reload_config() parses the file (which publishes it as CONFIG), then rebuilds the pools if the
//! configuration changed. When the rebuild fails - here: the server of an added pool is not up yet, and
//! `validate_config` with `min_pool_size = 1` makes the build connect - POOLS stay as they were but CONFIG
//! is already the new file. The next RELOAD / SIGHUP compares the file with itself, sees no change and
//! builds nothing: the pool of a perfectly valid file is missing until somebody edits the file again.
//!
//!   cargo test --offline --test d44_c14_failed_rebuild_is_retried

use bytes::{Buf, BufMut, BytesMut};
use parking_lot::Mutex;
use std::collections::HashMap;
use std::io::Write;
use std::sync::Arc;
use std::time::Duration;
use tokio::io::{AsyncReadExt, AsyncWriteExt};
use tokio::net::{TcpListener, TcpStream};

// ---------------------------------------------------------------------------
// wire helpers
// ---------------------------------------------------------------------------

fn cstr(buf: &mut BytesMut, s: &str) {
    buf.put_slice(s.as_bytes());
    buf.put_u8(0);
}

fn msg(code: u8, body: &[u8]) -> BytesMut {
    let mut m = BytesMut::new();
    m.put_u8(code);
    m.put_i32(body.len() as i32 + 4);
    m.put_slice(body);
    m
}

fn read_cstr(buf: &mut &[u8]) -> String {
    let end = buf.iter().position(|b| *b == 0).expect("nul terminator");
    let s = String::from_utf8_lossy(&buf[..end]).to_string();
    buf.advance(end + 1);
    s
}

async fn read_msg(stream: &mut TcpStream) -> Option<(u8, Vec<u8>)> {
    let code = stream.read_u8().await.ok()?;
    let len = stream.read_i32().await.ok()?;
    let mut body = vec![0u8; len as usize - 4];
    stream.read_exact(&mut body).await.ok()?;
    Some((code, body))
}

// ---------------------------------------------------------------------------
// fake PostgreSQL backend: logs every Query, tracks BEGIN / COMMIT / ROLLBACK
// ---------------------------------------------------------------------------

#[derive(Default)]
struct BackendLog {
    trace: Vec<String>,
    queries: Vec<String>,
}

async fn backend_connection(mut stream: TcpStream, conn_id: usize, log: Arc<Mutex<BackendLog>>) {
    loop {
        let len = match stream.read_i32().await {
            Ok(len) => len,
            Err(_) => return,
        };
        let mut body = vec![0u8; len as usize - 4];
        if stream.read_exact(&mut body).await.is_err() {
            return;
        }
        match (&body[..4]).get_i32() {
            80877103 => {
                let _ = stream.write_all(b"N").await;
                continue;
            }
            80877102 => return,
            _ => break,
        }
    }
    let mut out = BytesMut::new();
    out.put(msg(b'R', &0i32.to_be_bytes()));
    for (k, v) in [
        ("server_version", "14.5"),
        ("server_encoding", "UTF8"),
        ("client_encoding", "UTF8"),
        ("DateStyle", "ISO, MDY"),
        ("TimeZone", "Etc/UTC"),
        ("standard_conforming_strings", "on"),
        ("application_name", "pgcat"),
        ("integer_datetimes", "on"),
    ] {
        let mut b = BytesMut::new();
        cstr(&mut b, k);
        cstr(&mut b, v);
        out.put(msg(b'S', &b));
    }
    let mut k = BytesMut::new();
    k.put_i32(4242 + conn_id as i32);
    k.put_i32(99);
    out.put(msg(b'K', &k));
    out.put(msg(b'Z', b"I"));
    if stream.write_all(&out).await.is_err() {
        return;
    }
    let mut status = b'I';
    while let Some((code, body)) = read_msg(&mut stream).await {
        let mut b: &[u8] = &body;
        let mut out = BytesMut::new();
        match code {
            b'X' => return,
            b'Q' => {
                let query = read_cstr(&mut b);
                log.lock().trace.push(format!("[backend #{}] Query {:?}", conn_id, query));
                log.lock().queries.push(query.clone());
                let upper = query.trim().to_uppercase();
                if upper.starts_with("BEGIN") {
                    status = b'T';
                } else if upper.starts_with("COMMIT") || upper.starts_with("ROLLBACK") {
                    status = b'I';
                }
                let mut t = BytesMut::new();
                cstr(&mut t, if upper.starts_with("SET") { "SET" } else { "OK" });
                out.put(msg(b'C', &t));
                out.put(msg(b'Z', &[status]));
            }
            other => log.lock().trace.push(format!("[backend #{}] message '{}'", conn_id, other as char)),
        }
        if !out.is_empty() && stream.write_all(&out).await.is_err() {
            return;
        }
    }
}

async fn start_fake_backend(log: Arc<Mutex<BackendLog>>) -> u16 {
    let listener = TcpListener::bind("127.0.0.1:0").await.unwrap();
    let port = listener.local_addr().unwrap().port();
    tokio::spawn(async move {
        let mut next_id = 0usize;
        loop {
            let (stream, _) = match listener.accept().await {
                Ok(s) => s,
                Err(_) => return,
            };
            let log = log.clone();
            let id = next_id;
            next_id += 1;
            tokio::spawn(backend_connection(stream, id, log));
        }
    });
    port
}

// ---------------------------------------------------------------------------
// the scenario
// ---------------------------------------------------------------------------

fn config(first_port: u16, second_port: Option<u16>) -> String {
    let mut c = format!(
        r#"
[general]
host = "127.0.0.1"
port = 6432
admin_username = "admin"
admin_password = "admin"
validate_config = true
connect_timeout = 500
worker_threads = 2

[pools.db]
pool_mode = "transaction"

[pools.db.users.0]
username = "u"
password = "p"
pool_size = 2
min_pool_size = 1

[pools.db.shards.0]
servers = [["127.0.0.1", {}, "primary"]]
database = "db"
"#,
        first_port
    );
    if let Some(port) = second_port {
        c.push_str(&format!(
            r#"
[pools.db2]
pool_mode = "transaction"

[pools.db2.users.0]
username = "u"
password = "p"
pool_size = 2
min_pool_size = 1

[pools.db2.shards.0]
servers = [["127.0.0.1", {}, "primary"]]
database = "db2"
"#,
            port
        ));
    }
    c
}

#[tokio::test(flavor = "multi_thread", worker_threads = 2)]
async fn a_reload_that_failed_is_tried_again() {
    let log = Arc::new(Mutex::new(BackendLog::default()));
    let first_port = start_fake_backend(log.clone()).await;
    // the second server's port: reserved now, nobody listens on it until later
    let reserved = std::net::TcpListener::bind("127.0.0.1:0").unwrap();
    let second_port = reserved.local_addr().unwrap().port();
    drop(reserved);

    let path = std::env::temp_dir().join(format!("d44_pgcat_{}.toml", std::process::id()));
    std::fs::write(&path, config(first_port, None)).unwrap();
    pgcat::config::parse(path.to_str().unwrap()).await.expect("config A parses");
    let map: pgcat::pool::ClientServerMap = Arc::new(Mutex::new(HashMap::new()));
    pgcat::pool::ConnectionPool::from_config(map.clone()).await.expect("pools of config A");
    assert!(pgcat::pool::get_pool("db", "u").is_some());

    // config B adds a pool whose server is not up yet: the reload fails, the old pools stay
    std::fs::write(&path, config(first_port, Some(second_port))).unwrap();
    let first = pgcat::config::reload_config(map.clone()).await;
    assert!(first.is_err(), "the rebuild cannot succeed while the new server is down: {:?}", first);
    assert!(pgcat::pool::get_pool("db", "u").is_some(), "the old pool is still served");
    assert!(pgcat::pool::get_pool("db2", "u").is_none());

    // the server comes up; the operator reloads again (same, valid file)
    let listener = TcpListener::bind(("127.0.0.1", second_port)).await.expect("second server port");
    let log2 = log.clone();
    tokio::spawn(async move {
        let mut id = 100;
        loop {
            if let Ok((s, _)) = listener.accept().await {
                id += 1;
                tokio::spawn(backend_connection(s, id, log2.clone()));
            }
        }
    });
    let second = pgcat::config::reload_config(map.clone()).await;
    let _ = std::fs::remove_file(&path);
    assert!(
        pgcat::pool::get_pool("db2", "u").is_some(),
        "C14: the file is valid and its server is up, but after RELOAD (which answered {:?}) the pool db2 still does not exist",
        second
    );
}

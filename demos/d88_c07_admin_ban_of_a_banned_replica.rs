//! D88 (C07): `BAN host seconds` is ignored for a replica that is already on the ban list.
//!
//! `admin::ban` bans only addresses for which `pool.is_banned()` is false. A replica that failed a health check
//! a moment ago is on the list with the failure as reason; the administrator who now takes it out of service
//! for an hour (`BAN replica-a 3600`) gets an empty answer and nothing changes: the entry stays a failure ban, it
//! runs out after ban_time (here 1 s) and the replica receives client statements again - 59 minutes early.
//! "A ban ends after ban_time (or the admin-given duration)": the admin-given duration is the later word.
//! (Reported by seeding agents of rounds 5, 7 and 11.)
//!
//! No server is needed: the pool is built with validate_config = false and nothing is checked out.
//!
//!   cargo test --offline --test d88_c07_admin_ban_of_a_banned_replica

use std::collections::HashMap;
use std::sync::Arc;
use std::time::Duration;

use bytes::{BufMut, BytesMut};

use pgcat::admin::handle_admin;
use pgcat::pool::{get_pool, BanReason, ClientServerMap, ConnectionPool};

#[tokio::test(flavor = "multi_thread", worker_threads = 2)]
async fn admin_ban_of_an_already_banned_replica_lasts_as_long_as_the_admin_said() {
    let toml = r#"
[general]
host = "127.0.0.1"
port = 6432
admin_username = "admin"
admin_password = "admin"
validate_config = false
ban_time = 1
healthcheck_delay = 600000

[pools.db.users.0]
username = "user"
password = "pw"
pool_size = 2
pool_mode = "transaction"

[pools.db.shards.0]
servers = [
  ["replica-a.invalid", 5432, "replica"],
  ["replica-b.invalid", 5432, "replica"]
]
database = "postgres"
"#;
    let path = std::env::temp_dir().join(format!("d88_{}.toml", std::process::id()));
    std::fs::write(&path, toml).unwrap();
    pgcat::config::parse(path.to_str().unwrap()).await.unwrap();
    let map: ClientServerMap = Arc::new(parking_lot::Mutex::new(HashMap::new()));
    ConnectionPool::from_config(map.clone()).await.unwrap();
    let pool = get_pool("db", "user").expect("pool db/user");

    let replica_a = pool.get_addresses_from_host("replica-a.invalid")[0].clone();

    // the replica fails a health check ...
    pool.ban(&replica_a, BanReason::FailedHealthCheck, None);
    assert!(pool.is_banned(&replica_a));

    // ... and the administrator takes it out of service for an hour
    let query = "BAN replica-a.invalid 3600";
    let mut message = BytesMut::new();
    message.put_u8(b'Q');
    message.put_i32(query.len() as i32 + 5);
    message.put_slice(query.as_bytes());
    message.put_u8(0);
    let mut answer: Vec<u8> = Vec::new();
    handle_admin(&mut answer, message, map).await.unwrap();

    // ban_time (1 s) later the replica is still out of service
    tokio::time::sleep(Duration::from_millis(1600)).await;
    assert!(
        !pool.try_unban(&replica_a).await,
        "BAN replica-a.invalid 3600 was ignored: the ban ended after ban_time (1 s) because the replica was already on the list as a failure"
    );
    assert!(pool.is_banned(&replica_a));
}

// Demonstration for known finding D9 (C19): copy to /repo/tests/ and run
//   cargo test --offline --test d9_c19_set_server_role_disables_plugins
// Before the `fix:` commit Client::handle dispatched plugins only under
// `if query_router.query_parser_enabled()`, and `SET SERVER ROLE TO 'primary'` makes that return false
// (asserting `qr.query_parser_enabled()` below instead reproduces the defect on the old tree).
// After the fix the dispatch is guarded by statement_parsing_enabled(), which a client cannot switch off
// while the pool has plugins.
use pgcat::config::{Plugins, TableAccess};
use pgcat::messages::simple_query;
use pgcat::pool::PoolSettings;
use pgcat::query_router::QueryRouter;

#[test]
fn client_cannot_switch_plugin_dispatch_off() {
    QueryRouter::setup();
    let plugins = Plugins {
        table_access: Some(TableAccess { enabled: true, tables: vec!["users".to_string()] }),
        intercept: None,
        query_logger: None,
        prewarmer: None,
    };
    let ps = PoolSettings { query_parser_enabled: true, plugins: Some(plugins), ..Default::default() };
    let mut qr = QueryRouter::new();
    qr.update_pool_settings(&ps);
    assert!(qr.query_parser_enabled());
    assert!(qr.try_execute_command(&simple_query("SET SERVER ROLE TO 'primary'")).is_some());
    // this is the condition that guards every execute_plugins call in Client::handle
    assert!(qr.statement_parsing_enabled(), "plugin dispatch gate was switched off by a client command");
    // routing inference stays off, as the client asked
    assert!(!qr.query_parser_enabled());
}

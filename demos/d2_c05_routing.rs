// Demonstration for defect D2 (C05): copy to /repo/tests/ and run
//   cargo test --offline --test d2_c05_routing
// Fails on the tree before the `fix:` commit for C05, passes after it.
use pgcat::config::Role;
use pgcat::messages::simple_query;
use pgcat::pool::PoolSettings;
use pgcat::query_router::QueryRouter;

fn role_of(q: &str) -> Option<Role> {
    QueryRouter::setup();
    let mut qr = QueryRouter::new();
    let mut ps = PoolSettings::default();
    ps.query_parser_read_write_splitting = true;
    ps.query_parser_enabled = true;
    ps.primary_reads_enabled = false;
    qr.update_pool_settings(&ps);
    // previous transaction was a read
    let m = simple_query("SELECT 1");
    qr.infer(&qr.parse(&m).unwrap()).unwrap();
    assert_eq!(qr.role(), Some(Role::Replica));
    let m = simple_query(q);
    let ast = qr.parse(&m).unwrap();
    let _ = qr.infer(&ast);
    qr.role()
}

#[test]
fn c05_cases() {
    let mut bad = vec![];
    for q in [
        "WITH t AS (INSERT INTO x VALUES (1) RETURNING *) SELECT * FROM t",
        "WITH t AS (UPDATE x SET a = 1 RETURNING *) SELECT * FROM t",
        "SELECT * INTO newt FROM x",
        "(SELECT * FROM x FOR UPDATE)",
        "SELECT * FROM (SELECT * FROM x FOR UPDATE) y",
        "SELECT * FROM x FOR UPDATE; SELECT 1",
        "SELECT a INTO t2 FROM x UNION SELECT 2",
    ] {
        if role_of(q) != Some(Role::Primary) {
            bad.push(q);
        }
    }
    for q in ["SELECT 1", "WITH t AS (SELECT 1) SELECT * FROM t", "SELECT * FROM a UNION SELECT * FROM b"] {
        assert_eq!(role_of(q), Some(Role::Replica), "{}", q);
    }
    assert!(bad.is_empty(), "routed to a replica: {:#?}", bad);
}

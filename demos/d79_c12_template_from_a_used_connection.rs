//! C12: values one client established must never become visible to another client.
//!
//! Sequence: client A connects with TimeZone/application_name/DateStyle of its own in the
//! startup packet and runs one statement (pgcat SETs A's values on the only server connection
//! of the pool and - on purpose - leaves them there at check-in). The operator issues
//! PAUSE + RESUME. Client B connects WITHOUT any of those parameters and runs one statement.
//!
//! Expected: B is told the server's own values in ParameterStatus, and B's statement runs under them.
//!
//! The backend is a small fake that keeps the session parameters per connection the way PostgreSQL
//! does (SET / RESET ALL / ParameterStatus) and records under which values each statement ran.

use std::collections::HashMap;
use std::sync::{Arc, Mutex};

use bytes::{Buf, BufMut, BytesMut};
use tokio::io::{AsyncRead, AsyncReadExt, AsyncWrite, AsyncWriteExt, DuplexStream};
use tokio::net::{TcpListener, TcpStream};

use pgcat::client::Client;
use pgcat::pool::{get_pool, ClientServerMap, ConnectionPool};

// ---------------------------------------------------------------------------------------------
// Fake backend
// ---------------------------------------------------------------------------------------------

#[derive(Debug, Clone)]
struct Executed {
    conn: usize,
    sql: String,
    gucs: HashMap<String, String>,
}

type Log = Arc<Mutex<Vec<Executed>>>;

const REPORTED: [&str; 5] = [
    "client_encoding",
    "DateStyle",
    "TimeZone",
    "standard_conforming_strings",
    "application_name",
];

fn canonical(key: &str) -> String {
    for k in REPORTED {
        if k.eq_ignore_ascii_case(key) {
            return k.to_string();
        }
    }
    key.to_lowercase()
}

fn msg(code: u8, body: &[u8]) -> BytesMut {
    let mut b = BytesMut::new();
    b.put_u8(code);
    b.put_i32(body.len() as i32 + 4);
    b.put_slice(body);
    b
}

fn parameter_status(key: &str, value: &str) -> BytesMut {
    let mut body = Vec::new();
    body.extend_from_slice(key.as_bytes());
    body.push(0);
    body.extend_from_slice(value.as_bytes());
    body.push(0);
    msg(b'S', &body)
}

fn command_complete(tag: &str) -> BytesMut {
    let mut body = tag.as_bytes().to_vec();
    body.push(0);
    msg(b'C', &body)
}

/// `E'..'` / `'..'` / bare word -> the value PostgreSQL would store.
fn unquote(raw: &str) -> String {
    let raw = raw.trim();
    let (escape, inner) = if (raw.starts_with("E'") || raw.starts_with("e'")) && raw.ends_with('\'')
    {
        (true, &raw[2..raw.len() - 1])
    } else if raw.starts_with('\'') && raw.ends_with('\'') && raw.len() >= 2 {
        (false, &raw[1..raw.len() - 1])
    } else {
        return raw.to_string();
    };

    let mut out = String::new();
    let mut chars = inner.chars().peekable();
    while let Some(c) = chars.next() {
        if c == '\'' && chars.peek() == Some(&'\'') {
            chars.next();
            out.push('\'');
        } else if escape && c == '\\' {
            if let Some(n) = chars.next() {
                out.push(n);
            }
        } else {
            out.push(c);
        }
    }
    out
}

async fn backend_connection(mut stream: TcpStream, conn: usize, log: Log) {
    // Startup packet.
    let len = match stream.read_i32().await {
        Ok(len) => len,
        Err(_) => return,
    };
    let mut rest = vec![0u8; len as usize - 4];
    if stream.read_exact(&mut rest).await.is_err() {
        return;
    }
    let mut rest = BytesMut::from(&rest[..]);
    let _protocol = rest.get_i32();
    let words: Vec<String> = rest[..]
        .split(|b: &u8| *b == 0)
        .map(|w| String::from_utf8_lossy(w).to_string())
        .collect();
    let mut startup = HashMap::new();
    let mut i = 0;
    while i + 1 < words.len() && !words[i].is_empty() {
        startup.insert(words[i].clone(), words[i + 1].clone());
        i += 2;
    }

    // What RESET ALL goes back to on this connection.
    let mut defaults: HashMap<String, String> = HashMap::new();
    defaults.insert("client_encoding".into(), "UTF8".into());
    defaults.insert("DateStyle".into(), "ISO, MDY".into());
    defaults.insert("TimeZone".into(), "Etc/UTC".into());
    defaults.insert("standard_conforming_strings".into(), "on".into());
    defaults.insert(
        "application_name".into(),
        startup.get("application_name").cloned().unwrap_or_default(),
    );
    let mut gucs = defaults.clone();

    let mut out = BytesMut::new();
    out.put(msg(b'R', &0i32.to_be_bytes()));
    out.put(parameter_status("server_version", "14.5"));
    out.put(parameter_status("server_encoding", "UTF8"));
    out.put(parameter_status("integer_datetimes", "on"));
    for k in REPORTED {
        out.put(parameter_status(k, &gucs[k]));
    }
    let mut key = Vec::new();
    key.extend_from_slice(&(1000 + conn as i32).to_be_bytes());
    key.extend_from_slice(&4242i32.to_be_bytes());
    out.put(msg(b'K', &key));
    out.put(msg(b'Z', b"I"));
    if stream.write_all(&out).await.is_err() {
        return;
    }

    loop {
        let code = match stream.read_u8().await {
            Ok(code) => code,
            Err(_) => return,
        };
        let len = match stream.read_i32().await {
            Ok(len) => len,
            Err(_) => return,
        };
        let mut body = vec![0u8; len as usize - 4];
        if stream.read_exact(&mut body).await.is_err() {
            return;
        }

        match code {
            b'X' => return,
            b'Q' => {
                let sql = String::from_utf8_lossy(&body[..body.len() - 1]).to_string();
                let mut out = BytesMut::new();
                let statements: Vec<&str> = sql
                    .split(';')
                    .map(|s| s.trim())
                    .filter(|s| !s.is_empty())
                    .collect();

                if statements.is_empty() {
                    out.put(msg(b'I', b""));
                }

                for statement in statements {
                    let upper = statement.to_uppercase();
                    if upper.starts_with("SET ") {
                        // SET <name> TO <value> | SET <name> = <value>
                        let rest = statement[4..].trim();
                        let (name, value) = if let Some(pos) = rest.to_uppercase().find(" TO ") {
                            (&rest[..pos], &rest[pos + 4..])
                        } else if let Some(pos) = rest.find('=') {
                            (&rest[..pos], &rest[pos + 1..])
                        } else {
                            (rest, "")
                        };
                        let name = canonical(name.trim());
                        let value = unquote(value);
                        let changed = gucs.get(&name) != Some(&value);
                        gucs.insert(name.clone(), value.clone());
                        if changed && REPORTED.contains(&name.as_str()) {
                            out.put(parameter_status(&name, &value));
                        }
                        out.put(command_complete("SET"));
                    } else if upper == "RESET ALL" {
                        let before = gucs.clone();
                        gucs = defaults.clone();
                        for k in REPORTED {
                            if before.get(k) != gucs.get(k) {
                                out.put(parameter_status(k, &gucs[k]));
                            }
                        }
                        out.put(command_complete("RESET"));
                    } else if upper.starts_with("RESET ") {
                        out.put(command_complete("RESET"));
                    } else if upper.starts_with("DEALLOCATE") {
                        out.put(command_complete("DEALLOCATE ALL"));
                    } else if upper == "ROLLBACK" {
                        out.put(command_complete("ROLLBACK"));
                    } else {
                        log.lock().unwrap().push(Executed {
                            conn,
                            sql: statement.to_string(),
                            gucs: gucs.clone(),
                        });
                        out.put(command_complete("SELECT 0"));
                    }
                }

                out.put(msg(b'Z', b"I"));
                if stream.write_all(&out).await.is_err() {
                    return;
                }
            }
            _ => {
                // Nothing else is used by this test.
                return;
            }
        }
    }
}

async fn fake_backend(log: Log) -> u16 {
    let listener = TcpListener::bind("127.0.0.1:0").await.unwrap();
    let port = listener.local_addr().unwrap().port();

    tokio::spawn(async move {
        let mut conn = 0;
        loop {
            let (stream, _) = match listener.accept().await {
                Ok(ok) => ok,
                Err(_) => return,
            };
            conn += 1;
            tokio::spawn(backend_connection(stream, conn, log.clone()));
        }
    });

    port
}

// ---------------------------------------------------------------------------------------------
// A PostgreSQL client of pgcat, over an in-memory pipe
// ---------------------------------------------------------------------------------------------

struct TestClient {
    stream: DuplexStream,
    /// What pgcat told this client in ParameterStatus, latest value per name.
    told: HashMap<String, String>,
    _shutdown: tokio::sync::broadcast::Sender<()>,
}

async fn read_until_ready<S: AsyncRead + Unpin>(
    stream: &mut S,
    told: &mut HashMap<String, String>,
) -> Vec<u8> {
    let mut codes = Vec::new();
    loop {
        let code = stream.read_u8().await.expect("pgcat closed the connection");
        let len = stream.read_i32().await.unwrap();
        let mut body = vec![0u8; len as usize - 4];
        stream.read_exact(&mut body).await.unwrap();
        codes.push(code);

        match code {
            b'S' => {
                let mut parts = body.split(|b| *b == 0);
                let key = String::from_utf8_lossy(parts.next().unwrap()).to_string();
                let value = String::from_utf8_lossy(parts.next().unwrap()).to_string();
                told.insert(key, value);
            }
            b'E' => panic!(
                "pgcat answered with an error: {}",
                String::from_utf8_lossy(&body).replace('\0', " ")
            ),
            b'Z' => return codes,
            _ => (),
        }
    }
}

async fn connect(client_server_map: ClientServerMap, parameters: &[(&str, &str)]) -> TestClient {
    let (mut ours, theirs) = tokio::io::duplex(1 << 16);
    let (read, write) = tokio::io::split(theirs);

    // The startup packet without its length and protocol number.
    let mut bytes = BytesMut::new();
    for (key, value) in parameters {
        bytes.put_slice(key.as_bytes());
        bytes.put_u8(0);
        bytes.put_slice(value.as_bytes());
        bytes.put_u8(0);
    }
    bytes.put_u8(0);

    let (shutdown_tx, shutdown_rx) = tokio::sync::broadcast::channel::<()>(1);

    let mut told = HashMap::new();
    let reader = async { read_until_ready(&mut ours, &mut told).await };
    let starter = Client::startup(
        read,
        write,
        "127.0.0.1:55555".parse().unwrap(),
        bytes,
        client_server_map,
        shutdown_rx,
        false,
    );

    let (client, _) = tokio::join!(starter, reader);
    let mut client = client.expect("client startup");

    tokio::spawn(async move {
        let _ = client.handle().await;
    });

    TestClient {
        stream: ours,
        told,
        _shutdown: shutdown_tx,
    }
}

impl TestClient {
    async fn query(&mut self, sql: &str) {
        let mut body = sql.as_bytes().to_vec();
        body.push(0);
        write_all(&mut self.stream, &msg(b'Q', &body)).await;
        read_until_ready(&mut self.stream, &mut self.told).await;
    }

    async fn terminate(mut self) {
        write_all(&mut self.stream, &msg(b'X', b"")).await;
        // Wait for pgcat to let go of the connection.
        let mut sink = Vec::new();
        let _ = self.stream.read_to_end(&mut sink).await;
    }
}

async fn write_all<S: AsyncWrite + Unpin>(stream: &mut S, bytes: &[u8]) {
    stream.write_all(bytes).await.unwrap();
    stream.flush().await.unwrap();
}

// ---------------------------------------------------------------------------------------------

#[tokio::test(flavor = "multi_thread", worker_threads = 2)]
async fn side_finding_reload_rebuild() {
    let log: Log = Arc::new(Mutex::new(Vec::new()));
    let port = fake_backend(log.clone()).await;

    let config = format!(
        r#"
[general]
host = "127.0.0.1"
port = 6432
admin_username = "admin"
admin_password = "admin"
validate_config = false
connect_timeout = 2000

[pools.db]
pool_mode = "transaction"

[pools.db.users.0]
username = "app"
password = "app"
auth_type = "trust"
pool_size = 1
min_pool_size = 0

[pools.db.shards.0]
servers = [["127.0.0.1", {}, "primary"]]
database = "postgres"
"#,
        port
    );
    let path = std::env::temp_dir().join(format!("c12_resume_template_{}.toml", port));
    std::fs::write(&path, config).unwrap();

    pgcat::config::parse(path.to_str().unwrap()).await.unwrap();
    let client_server_map: ClientServerMap = Default::default();
    ConnectionPool::from_config(client_server_map.clone())
        .await
        .unwrap();

    // Client A: parameters of its own, one statement.
    let mut a = connect(
        client_server_map.clone(),
        &[
            ("user", "app"),
            ("database", "db"),
            ("application_name", "billing's nightly \\ job"),
            ("TimeZone", "Asia/Tokyo"),
            ("DateStyle", "German, DMY"),
        ],
    )
    .await;
    assert_eq!(a.told["TimeZone"], "Asia/Tokyo");
    a.query("SELECT 'a1'").await;

    {
        let log = log.lock().unwrap();
        let a1 = log.iter().find(|e| e.sql == "SELECT 'a1'").unwrap();
        assert_eq!(a1.gucs["TimeZone"], "Asia/Tokyo", "A runs under its own TimeZone");
        assert_eq!(a1.gucs["application_name"], "billing's nightly \\ job");
    }

    // The operator pauses and resumes the pool (nothing else happens in between).
    // RELOAD with a changed pool section: the pool is rebuilt (validate_config = false: nobody looks at it yet).
    let _ = get_pool("db", "app").unwrap();
    let changed = std::fs::read_to_string(&path).unwrap().replace("pool_size = 1", "pool_size = 2");
    std::fs::write(&path, changed).unwrap();
    pgcat::config::parse(path.to_str().unwrap()).await.unwrap();
    ConnectionPool::from_config(client_server_map.clone()).await.unwrap();
    // A, connected since before the reload, goes on working: on the new pool.
    a.query("SELECT 'a2'").await;

    // Client B says nothing about TimeZone, DateStyle or application_name.
    let mut b = connect(
        client_server_map.clone(),
        &[("user", "app"), ("database", "db")],
    )
    .await;
    let told_at_startup = b.told.clone();
    b.query("SELECT 'b1'").await;

    let b1 = {
        let log = log.lock().unwrap();
        log.iter().find(|e| e.sql == "SELECT 'b1'").unwrap().clone()
    };

    println!("B was told at startup: {:?}", told_at_startup);
    println!("B's statement ran on connection {} under {:?}", b1.conn, b1.gucs);

    // What B is told is not what A chose...
    assert_eq!(
        told_at_startup["TimeZone"], "Etc/UTC",
        "B never mentioned a TimeZone: it must be told the server's, not client A's"
    );
    assert_eq!(told_at_startup["DateStyle"], "ISO, MDY");
    assert_ne!(told_at_startup["application_name"], "billing's nightly \\ job");

    // ... and B's statement does not run under what A chose.
    assert_eq!(
        b1.gucs["TimeZone"], "Etc/UTC",
        "B's statement ran under client A's TimeZone"
    );
    assert_eq!(b1.gucs["DateStyle"], "ISO, MDY");
    assert_ne!(b1.gucs["application_name"], "billing's nightly \\ job");

    // Whatever B was told is what its statement ran under.
    for key in ["TimeZone", "DateStyle", "client_encoding", "application_name"] {
        assert_eq!(b.told[key], b1.gucs[key], "{}", key);
    }

    a.terminate().await;
    b.terminate().await;
    let _ = std::fs::remove_file(&path);
}

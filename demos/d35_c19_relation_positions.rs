// D35 (C19, known finding, not repaired): positions of a relation name that table_access does not see.
//   cargo test --offline --test d35_c19_relation_positions
// table_access walks the statement with sqlparser's visit_relations. In the sqlparser version pgcat links
// (0.52) that traversal covers FROM/JOIN/DML targets/ALTER/TRUNCATE/ANALYZE but not the table of a COPY,
// the names of a DROP, COMMENT ON, GRANT, CREATE TABLE .. LIKE, the `TABLE t` query form - and `FROM ONLY t`
// is parsed as a table called `only` with alias t. Each statement below is accepted by the parser, refers to
// the listed table, and is allowed by the plugin (so it is forwarded).
// Expected on the current tree: FAILS (that is the finding).
use pgcat::config::{Plugins, TableAccess};
use pgcat::messages::simple_query;
use pgcat::plugins::PluginOutput;
use pgcat::pool::PoolSettings;
use pgcat::query_router::QueryRouter;

#[tokio::test]
async fn every_position_of_a_listed_table_is_refused() {
    QueryRouter::setup();
    let plugins = Plugins {
        table_access: Some(TableAccess { enabled: true, tables: vec!["secret".to_string()] }),
        intercept: None,
        query_logger: None,
        prewarmer: None,
    };
    let ps = PoolSettings { query_parser_enabled: true, plugins: Some(plugins), ..Default::default() };
    let mut qr = QueryRouter::new();
    qr.update_pool_settings(&ps);
    let mut allowed = vec![];
    let mut unparsed = vec![];
    for q in [
        // controls (refused today)
        "SELECT * FROM secret",
        "DELETE FROM secret",
        "TRUNCATE secret",
        // the finding
        "COPY secret TO STDOUT",
        "COPY secret (a, b) FROM STDIN",
        "SELECT * FROM ONLY secret",
        "TABLE secret",
        "CREATE TABLE x AS TABLE secret",
        "INSERT INTO x TABLE secret",
        "DROP TABLE secret",
        "CREATE TABLE y (LIKE secret)",
        "COMMENT ON TABLE secret IS 'x'",
        "GRANT SELECT ON secret TO someone",
    ] {
        match qr.parse(&simple_query(q)) {
            Ok(ast) => {
                if !matches!(qr.execute_plugins(&ast).await, Ok(PluginOutput::Deny(_))) {
                    allowed.push(q);
                }
            }
            Err(_) => unparsed.push(q), // not accepted by the parser: outside the property
        }
    }
    println!("not accepted by the parser (outside the property): {:?}", unparsed);
    assert!(allowed.is_empty(), "allowed although they refer to the listed table: {:#?}", allowed);
}

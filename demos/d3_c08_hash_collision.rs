// Demonstration for defect D3 (C08): copy to /repo/tests/ and run
//   cargo test --offline --test d3_c08_hash_collision
// Before the `fix:` commit the two different statements have the same cache key, so the pool's
// statement cache hands the second client the first client's rewritten Parse (other query text).
use bytes::{BufMut, BytesMut};
use pgcat::messages::Parse;

fn parse_msg(name: &str, query: &str, types: &[i32]) -> Parse {
    let mut body = BytesMut::new();
    body.put_slice(name.as_bytes());
    body.put_u8(0);
    body.put_slice(query.as_bytes());
    body.put_u8(0);
    body.put_i16(types.len() as i16);
    for t in types {
        body.put_i32(*t);
    }
    let mut msg = BytesMut::new();
    msg.put_u8(b'P');
    msg.put_i32(4 + body.len() as i32);
    msg.put_slice(&body);
    (&msg).try_into().unwrap()
}

#[test]
fn different_statements_have_different_cache_keys() {
    let a = parse_msg("s1", "SELECT $1", &[0]);
    let b = parse_msg("s1", "SELECT $11", &[]);
    assert_ne!(a.get_hash(), b.get_hash(), "two different statements share one pool cache entry");
    // and the key does not depend on the client-chosen name
    let c = parse_msg("other", "SELECT $1", &[0]);
    assert_eq!(a.get_hash(), c.get_hash());
}

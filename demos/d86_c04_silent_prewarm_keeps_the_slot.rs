//! D86 (C04): a server that completes the startup and never answers the prewarm query keeps its pool slot for ever.
//!
//! `ServerPool::connect` puts the startup under connect_timeout (D56) and then runs the prewarmer's queries -
//! `Server::query`, a send and a read with no deadline - still inside the attempt bb8 counts against the pool's
//! size. A server that says nothing to the prewarm query holds the attempt, and with it the slot, for as long as
//! it likes: with pool_size = 1 no later checkout is served, also after the server has recovered.
//! (Found and run by the round-10 seeding agent for C04; header replaced.)
//!
//!   cargo test --offline --test d86_c04_silent_prewarm_keeps_the_slot

use std::collections::HashMap;
use std::sync::atomic::{AtomicUsize, Ordering};
use std::sync::Arc;
use std::time::Duration;

use bytes::{BufMut, BytesMut};
use parking_lot::Mutex;
use tokio::io::{AsyncReadExt, AsyncWriteExt, DuplexStream, ReadHalf, WriteHalf};
use tokio::net::{TcpListener, TcpStream};

use pgcat::client::Client;
use pgcat::pool::{get_pool, ClientServerMap, ConnectionPool};

// ---------------------------------------------------------------------------------------------
// Minimal PostgreSQL backend
// ---------------------------------------------------------------------------------------------

#[derive(Default)]
struct BackendLog {
    /// Connections open right now / the most that were open at once.
    open: AtomicUsize,
    max_open: AtomicUsize,
    /// Message codes received after the startup, all connections together.
    received: Mutex<Vec<char>>,
    /// Simple queries get no answer while this is set.
    silent_queries: std::sync::atomic::AtomicBool,
}

fn msg(code: u8, body: &[u8]) -> Vec<u8> {
    let mut m = Vec::with_capacity(body.len() + 5);
    m.push(code);
    m.extend_from_slice(&((body.len() as i32 + 4).to_be_bytes()));
    m.extend_from_slice(body);
    m
}

fn parameter_status(key: &str, value: &str) -> Vec<u8> {
    let mut body = Vec::new();
    body.extend_from_slice(key.as_bytes());
    body.push(0);
    body.extend_from_slice(value.as_bytes());
    body.push(0);
    msg(b'S', &body)
}

async fn backend_connection(mut stream: TcpStream, log: Arc<BackendLog>) {
    // Startup packet.
    let len = match stream.read_i32().await {
        Ok(len) => len,
        Err(_) => return,
    };
    let mut startup = vec![0u8; len as usize - 4];
    if stream.read_exact(&mut startup).await.is_err() {
        return;
    }

    let mut hello = Vec::new();
    hello.extend(msg(b'R', &0i32.to_be_bytes()));
    hello.extend(parameter_status("server_version", "14.5"));
    hello.extend(parameter_status("server_encoding", "UTF8"));
    hello.extend(parameter_status("client_encoding", "UTF8"));
    hello.extend(parameter_status("DateStyle", "ISO, MDY"));
    hello.extend(parameter_status("TimeZone", "Etc/UTC"));
    hello.extend(parameter_status("standard_conforming_strings", "on"));
    hello.extend(parameter_status("application_name", "pgcat"));
    let mut key = Vec::new();
    key.extend_from_slice(&4242i32.to_be_bytes());
    key.extend_from_slice(&2424i32.to_be_bytes());
    hello.extend(msg(b'K', &key));
    hello.extend(msg(b'Z', b"I"));
    if stream.write_all(&hello).await.is_err() {
        return;
    }

    loop {
        let code = match stream.read_u8().await {
            Ok(code) => code,
            Err(_) => return,
        };
        let len = match stream.read_i32().await {
            Ok(len) => len,
            Err(_) => return,
        };
        let mut body = vec![0u8; len as usize - 4];
        if stream.read_exact(&mut body).await.is_err() {
            return;
        }

        log.received.lock().push(code as char);

        let reply: Vec<u8> = match code {
            b'Q' if log.silent_queries.load(Ordering::SeqCst) => Vec::new(),
            b'Q' => {
                let mut r = msg(b'C', b"SELECT 1\0");
                r.extend(msg(b'Z', b"I"));
                r
            }
            b'P' => msg(b'1', &[]),
            b'B' => msg(b'2', &[]),
            b'D' => msg(b'n', &[]),
            b'E' => msg(b'C', b"SELECT 1\0"),
            b'C' => msg(b'3', &[]),
            b'S' => msg(b'Z', b"I"),
            b'X' => return,
            _ => Vec::new(),
        };

        if !reply.is_empty() && stream.write_all(&reply).await.is_err() {
            return;
        }
    }
}

async fn start_backend() -> (u16, Arc<BackendLog>) {
    let listener = TcpListener::bind("127.0.0.1:0").await.unwrap();
    let port = listener.local_addr().unwrap().port();
    let log = Arc::new(BackendLog::default());

    let accept_log = log.clone();
    tokio::spawn(async move {
        loop {
            let (stream, _) = match listener.accept().await {
                Ok(conn) => conn,
                Err(_) => return,
            };
            let log = accept_log.clone();
            tokio::spawn(async move {
                let open = log.open.fetch_add(1, Ordering::SeqCst) + 1;
                log.max_open.fetch_max(open, Ordering::SeqCst);
                backend_connection(stream, log.clone()).await;
                log.open.fetch_sub(1, Ordering::SeqCst);
            });
        }
    });

    (port, log)
}

// ---------------------------------------------------------------------------------------------
// A client of pgcat, over an in-memory pipe
// ---------------------------------------------------------------------------------------------

struct TestClient {
    read: ReadHalf<DuplexStream>,
    write: WriteHalf<DuplexStream>,
    _task: tokio::task::JoinHandle<()>,
}

impl TestClient {
    async fn connect(
        client_server_map: ClientServerMap,
        shutdown: &tokio::sync::broadcast::Sender<()>,
    ) -> TestClient {
        let (ours, theirs) = tokio::io::duplex(1 << 16);
        let (pgcat_read, pgcat_write) = tokio::io::split(theirs);
        let (read, write) = tokio::io::split(ours);

        // What follows the protocol version in a startup packet.
        let mut startup = BytesMut::new();
        for (key, value) in [
            ("user", "app"),
            ("database", "db"),
            ("application_name", "c04"),
        ] {
            startup.put_slice(key.as_bytes());
            startup.put_u8(0);
            startup.put_slice(value.as_bytes());
            startup.put_u8(0);
        }
        startup.put_u8(0);

        let shutdown_rx = shutdown.subscribe();
        let task = tokio::spawn(async move {
            let mut client = match Client::startup(
                pgcat_read,
                pgcat_write,
                "127.0.0.1:50000".parse().unwrap(),
                startup,
                client_server_map,
                shutdown_rx,
                false,
            )
            .await
            {
                Ok(client) => client,
                Err(err) => panic!("client startup failed: {:?}", err),
            };

            let _ = client.handle().await;
        });

        let mut client = TestClient {
            read,
            write,
            _task: task,
        };

        // AuthenticationOk, ParameterStatus..., BackendKeyData, ReadyForQuery.
        let greeting = client.read_until_ready().await;
        assert_eq!(greeting.first(), Some(&'R'), "greeting: {:?}", greeting);

        client
    }

    async fn send(&mut self, bytes: &[u8]) {
        self.write.write_all(bytes).await.unwrap();
        self.write.flush().await.unwrap();
    }

    /// The codes of the messages up to and including the next ReadyForQuery.
    async fn read_until_ready(&mut self) -> Vec<char> {
        let mut codes = Vec::new();
        loop {
            let code = tokio::time::timeout(Duration::from_secs(10), self.read.read_u8())
                .await
                .expect("pgcat did not answer within 10 s")
                .expect("pgcat closed the connection");
            let len = self.read.read_i32().await.unwrap();
            let mut body = vec![0u8; len as usize - 4];
            self.read.read_exact(&mut body).await.unwrap();
            codes.push(code as char);
            if code == b'Z' {
                return codes;
            }
        }
    }
}

fn parse_message(name: &str, query: &str) -> Vec<u8> {
    let mut body = Vec::new();
    body.extend_from_slice(name.as_bytes());
    body.push(0);
    body.extend_from_slice(query.as_bytes());
    body.push(0);
    body.extend_from_slice(&0i16.to_be_bytes());
    msg(b'P', &body)
}

fn close_statement_message(name: &str) -> Vec<u8> {
    let mut body = vec![b'S'];
    body.extend_from_slice(name.as_bytes());
    body.push(0);
    msg(b'C', &body)
}

fn sync_message() -> Vec<u8> {
    msg(b'S', &[])
}

fn query_message(query: &str) -> Vec<u8> {
    let mut body = Vec::new();
    body.extend_from_slice(query.as_bytes());
    body.push(0);
    msg(b'Q', &body)
}

/// (connections, idle connections) of the only server of the pool, once they agree or after 2 s.
async fn settled_pool_state(pool: &ConnectionPool) -> (u32, u32) {
    let mut state = pool.pool_state(0, 0);
    for _ in 0..40 {
        if state.connections == state.idle_connections {
            break;
        }
        tokio::time::sleep(Duration::from_millis(50)).await;
        state = pool.pool_state(0, 0);
    }
    (state.connections, state.idle_connections)
}

// ---------------------------------------------------------------------------------------------


fn bind_message() -> Vec<u8> {
    let mut body = vec![0u8, 0u8];
    body.extend_from_slice(&0i16.to_be_bytes());
    body.extend_from_slice(&0i16.to_be_bytes());
    body.extend_from_slice(&0i16.to_be_bytes());
    msg(b'B', &body)
}

fn execute_message() -> Vec<u8> {
    let mut body = vec![0u8];
    body.extend_from_slice(&0i32.to_be_bytes());
    msg(b'E', &body)
}

async fn load(config: String, tag: &str) {
    let path = std::env::temp_dir().join(format!("c04_side_{}_{}.toml", tag, std::process::id()));
    std::fs::write(&path, config).unwrap();
    pgcat::config::parse(path.to_str().unwrap()).await.unwrap();
}

#[tokio::test(flavor = "multi_thread", worker_threads = 4)]
async fn side_silent_prewarm_keeps_the_slot() {
    let (port, backend) = start_backend().await;
    load(format!(
        r#"
[general]
host = "127.0.0.1"
port = 6432
admin_username = "admin"
admin_password = "admin"
validate_config = false
connect_timeout = 500
healthcheck_delay = 600000

[plugins]

[plugins.prewarmer]
enabled = true
queries = ["SELECT 1"]

[pools.db]
pool_mode = "transaction"

[pools.db.users.0]
username = "app"
password = "app"
auth_type = "trust"
pool_size = 1

[pools.db.shards.0]
servers = [["127.0.0.1", {}, "primary"]]
database = "db"
"#,
        port
    ), "prewarm").await;

    let client_server_map: ClientServerMap = Arc::new(Mutex::new(HashMap::new()));
    ConnectionPool::from_config(client_server_map.clone()).await.unwrap();
    let pool = get_pool("db", "app").unwrap();

    backend.silent_queries.store(true, Ordering::SeqCst);
    let first = pool.validate().await;
    println!("first checkout, server silent on the prewarm query: {:?}", first);
    assert!(first.is_err());

    backend.silent_queries.store(false, Ordering::SeqCst);
    tokio::time::sleep(Duration::from_secs(2)).await;
    let mut served = false;
    for attempt in 0..5 {
        let result = pool.validate().await;
        println!("attempt {} with a healthy server: {:?}, open backend connections {}", attempt, result, backend.open.load(Ordering::SeqCst));
        if result.is_ok() { served = true; break; }
    }
    assert!(served, "C04: after the server answers again no checkout is served - the attempt that waits for the prewarm reply still holds the only slot");
}

